package main

// Generator "ConstInt" (property C02): re-reads /repo/internal/compiler/constant.go (and the
// constants / isSigned of checker_util.go) and emits lean/ScriggoV/Gen/ConstInt.lean with
//   - int64Const.binaryOp's per-operator bodies as BitVec-64 terms together with the overflow
//     tests that decide "fall back to big.Int" (fastBinary), int64Const.unaryOp (fastUnary),
//   - the right shift of the int64 path and the recognised big.Int left shift prologue,
//   - int64Const.representedBy's range tests per reflect.Kind (repFast) and the conditions of
//     intConst.representedBy (repBigUint64, repBigIntKind),
//   - maxUnsignedValues / maxBigUnsignedValues with their real length and the real index
//     expression (a missing entry is a fault `none` in the model),
//   - what intConst.binaryOp / unaryOp do per operator (math/big method, overflow test, zero guard),
//   - shiftConstError's limit and count type, intConst.overflow's bit limit.
// Division and table indexing are translated as *checked* operations (FastResult.goPanic).
// Only the shapes spelled out below are accepted; anything else is "shape not recognised".

import (
	"bytes"
	"fmt"
	"go/ast"
	"go/parser"
	"go/printer"
	"go/token"
	"math/big"
	"path/filepath"
	"reflect"
	"strings"
)

func init() {
	generators = append(generators, generator{name: "ConstInt", run: genConstInt})
}

type ciGen struct {
	fset   *token.FileSet
	files  []*ast.File
	consts map[string]ast.Expr // package-level untyped/typed constants by name
	vars   map[string]ast.Expr // package-level variables by name (initialiser)
	out    strings.Builder
}

func (g *ciGen) src(n ast.Node) string {
	var b bytes.Buffer
	printer.Fprint(&b, g.fset, n)
	return strings.Join(strings.Fields(b.String()), " ")
}

func (g *ciGen) errf(n ast.Node, format string, a ...any) error {
	return fmt.Errorf("shape not recognised: %s (at %s: %s)", fmt.Sprintf(format, a...), g.fset.Position(n.Pos()), g.src(n))
}

func (g *ciGen) method(recv, name string) (*ast.FuncDecl, error) {
	for _, f := range g.files {
		for _, d := range f.Decls {
			fd, ok := d.(*ast.FuncDecl)
			if !ok || fd.Name.Name != name || fd.Body == nil {
				continue
			}
			if recv == "" && fd.Recv == nil {
				return fd, nil
			}
			if recv != "" && fd.Recv != nil && len(fd.Recv.List) == 1 {
				rt := fd.Recv.List[0].Type
				if st, ok := rt.(*ast.StarExpr); ok {
					rt = st.X
				}
				if id, ok := rt.(*ast.Ident); ok && id.Name == recv {
					return fd, nil
				}
			}
		}
	}
	return nil, fmt.Errorf("shape not recognised: func %s.%s not found", recv, name)
}

// ---------------------------------------------------------------------------------------------
// constant expressions (the package's own integer constants, as the Go compiler folds them on
// amd64: int, uint and uintptr are 64 bits wide)

type ciConst struct {
	v   *big.Int
	typ string // "" untyped, or int, int8 … uintptr, int64Const (= int64)
}

var ciWidths = map[string]int{"int": 64, "int8": 8, "int16": 16, "int32": 32, "int64": 64, "int64Const": 64,
	"uint": 64, "uint8": 8, "uint16": 16, "uint32": 32, "uint64": 64, "uintptr": 64}

func ciUnsigned(t string) bool { return strings.HasPrefix(t, "uint") }

func ciFits(v *big.Int, t string) bool {
	w, ok := ciWidths[t]
	if !ok {
		return false
	}
	lo, hi := new(big.Int), new(big.Int)
	if ciUnsigned(t) {
		hi.Sub(hi.Lsh(big.NewInt(1), uint(w)), big.NewInt(1))
	} else {
		lo.Neg(lo.Lsh(big.NewInt(1), uint(w-1)))
		hi.Sub(hi.Lsh(big.NewInt(1), uint(w-1)), big.NewInt(1))
	}
	return lo.Cmp(v) <= 0 && v.Cmp(hi) <= 0
}

// constEval folds e if it is an integer constant expression; ok=false if it is not constant.
func (g *ciGen) constEval(e ast.Expr, depth int) (c ciConst, ok bool, err error) {
	if depth > 20 {
		return c, false, g.errf(e, "constant definitions nest too deeply")
	}
	switch e := e.(type) {
	case *ast.ParenExpr:
		return g.constEval(e.X, depth+1)
	case *ast.BasicLit:
		if e.Kind != token.INT {
			return c, false, nil
		}
		v, good := new(big.Int).SetString(strings.ReplaceAll(e.Value, "_", ""), 0)
		if !good {
			return c, false, g.errf(e, "integer literal")
		}
		return ciConst{v: v}, true, nil
	case *ast.Ident:
		if d, found := g.consts[e.Name]; found {
			return g.constEval(d, depth+1)
		}
		return c, false, nil
	case *ast.SelectorExpr:
		switch g.src(e) {
		case "math.MinInt64":
			return ciConst{v: new(big.Int).Neg(new(big.Int).Lsh(big.NewInt(1), 63))}, true, nil
		case "math.MaxInt64":
			return ciConst{v: new(big.Int).Sub(new(big.Int).Lsh(big.NewInt(1), 63), big.NewInt(1))}, true, nil
		case "strconv.IntSize":
			return ciConst{v: big.NewInt(64)}, true, nil
		}
		return c, false, nil
	case *ast.CallExpr:
		id, isId := e.Fun.(*ast.Ident)
		if !isId || len(e.Args) != 1 {
			return c, false, nil
		}
		if _, isType := ciWidths[id.Name]; !isType {
			return c, false, nil
		}
		x, xok, err := g.constEval(e.Args[0], depth+1)
		if err != nil || !xok {
			return c, false, err
		}
		if !ciFits(x.v, id.Name) {
			return c, false, g.errf(e, "constant conversion overflows")
		}
		t := id.Name
		if t == "int64Const" {
			t = "int64"
		}
		return ciConst{v: x.v, typ: t}, true, nil
	case *ast.UnaryExpr:
		x, xok, err := g.constEval(e.X, depth+1)
		if err != nil || !xok {
			return c, false, err
		}
		r := new(big.Int)
		switch e.Op {
		case token.SUB:
			r.Neg(x.v)
		case token.ADD:
			r.Set(x.v)
		case token.XOR:
			if ciUnsigned(x.typ) {
				m := new(big.Int).Sub(new(big.Int).Lsh(big.NewInt(1), uint(ciWidths[x.typ])), big.NewInt(1))
				r.Xor(m, x.v)
			} else {
				r.Not(x.v)
			}
		default:
			return c, false, nil
		}
		if x.typ != "" && !ciFits(r, x.typ) {
			return c, false, g.errf(e, "constant overflows %s", x.typ)
		}
		return ciConst{v: r, typ: x.typ}, true, nil
	case *ast.BinaryExpr:
		x, xok, err := g.constEval(e.X, depth+1)
		if err != nil || !xok {
			return c, false, err
		}
		y, yok, err := g.constEval(e.Y, depth+1)
		if err != nil || !yok {
			return c, false, err
		}
		r := new(big.Int)
		t := x.typ
		switch e.Op {
		case token.SHL, token.SHR:
			if y.v.Sign() < 0 || y.v.BitLen() > 12 {
				return c, false, g.errf(e, "shift count")
			}
			if e.Op == token.SHL {
				r.Lsh(x.v, uint(y.v.Uint64()))
			} else {
				r.Rsh(x.v, uint(y.v.Uint64()))
			}
		case token.ADD, token.SUB, token.MUL:
			if x.typ != "" && y.typ != "" && x.typ != y.typ {
				return c, false, g.errf(e, "mismatched constant types")
			}
			if t == "" {
				t = y.typ
			}
			switch e.Op {
			case token.ADD:
				r.Add(x.v, y.v)
			case token.SUB:
				r.Sub(x.v, y.v)
			case token.MUL:
				r.Mul(x.v, y.v)
			}
		default:
			return c, false, nil // comparisons etc. are not folded here
		}
		if t != "" && !ciFits(r, t) {
			return c, false, g.errf(e, "constant overflows %s", t)
		}
		return ciConst{v: r, typ: t}, true, nil
	}
	return c, false, nil
}

// ---------------------------------------------------------------------------------------------
// expressions → Lean terms.  Types: "i64" (int64Const / int64), "u64" (uint64 / uint), "bool",
// "kind" (reflect.Kind, a Nat with Go's uint wrap-around on subtraction made explicit), "const".

type ciGuard struct {
	kind string // "div" (divisor must be non-zero) or "bind" (Option-valued table access)
	term string
	name string
}

type ciTerm struct {
	lean   string
	typ    string
	c      *ciConst
	guards []ciGuard
}

type ciEnv struct {
	vars   map[string]string // variable → type
	ntemps *int
}

func ciBV(v *big.Int) string {
	if v.Sign() < 0 {
		return "(BitVec.ofInt 64 (" + v.String() + "))"
	}
	return v.String() + "#64"
}

// coerce gives the Lean term of t at type want ("i64"/"u64"/"kind"); constants become literals.
func (g *ciGen) coerce(n ast.Node, t ciTerm, want string) (string, error) {
	if t.typ != "const" {
		if t.typ != want {
			return "", g.errf(n, "operand of type %s where %s is needed", t.typ, want)
		}
		return t.lean, nil
	}
	switch want {
	case "i64":
		if t.c.typ != "" && t.c.typ != "int64" && t.c.typ != "int" || !ciFits(t.c.v, "int64") {
			return "", g.errf(n, "constant %s (%s) used as int64", t.c.v, t.c.typ)
		}
		return ciBV(t.c.v), nil
	case "u64":
		if t.c.typ != "" && t.c.typ != "uint64" && t.c.typ != "uint" || !ciFits(t.c.v, "uint64") {
			return "", g.errf(n, "constant %s (%s) used as uint64", t.c.v, t.c.typ)
		}
		return ciBV(t.c.v), nil
	case "kind":
		if t.c.v.Sign() < 0 || t.c.v.BitLen() > 8 {
			return "", g.errf(n, "constant %s used as reflect.Kind", t.c.v)
		}
		return t.c.v.String(), nil
	}
	return "", g.errf(n, "constant used at type %s", want)
}

var ciKinds = map[string]reflect.Kind{
	"Bool": reflect.Bool, "Int": reflect.Int, "Int8": reflect.Int8, "Int16": reflect.Int16, "Int32": reflect.Int32,
	"Int64": reflect.Int64, "Uint": reflect.Uint, "Uint8": reflect.Uint8, "Uint16": reflect.Uint16,
	"Uint32": reflect.Uint32, "Uint64": reflect.Uint64, "Uintptr": reflect.Uintptr,
	"Float32": reflect.Float32, "Float64": reflect.Float64, "Complex64": reflect.Complex64, "Complex128": reflect.Complex128,
	"String": reflect.String,
}

func ciIsIntKind(k reflect.Kind) bool { return reflect.Int <= k && k <= reflect.Uintptr }

func (g *ciGen) kindOf(e ast.Expr) (reflect.Kind, bool) {
	s, ok := e.(*ast.SelectorExpr)
	if !ok {
		return 0, false
	}
	if id, ok := s.X.(*ast.Ident); !ok || id.Name != "reflect" {
		return 0, false
	}
	k, ok := ciKinds[s.Sel.Name]
	return k, ok
}

func (g *ciGen) expr(env *ciEnv, e ast.Expr) (ciTerm, error) {
	if k, ok := g.kindOf(e); ok {
		return ciTerm{typ: "const", c: &ciConst{v: big.NewInt(int64(k)), typ: "kind"}}, nil
	}
	if c, ok, err := g.constEval(e, 0); err != nil {
		return ciTerm{}, err
	} else if ok {
		return ciTerm{typ: "const", c: &c}, nil
	}
	switch e := e.(type) {
	case *ast.ParenExpr:
		t, err := g.expr(env, e.X)
		if err != nil {
			return t, err
		}
		if t.typ != "const" {
			t.lean = "(" + t.lean + ")"
		}
		return t, nil
	case *ast.Ident:
		if t, ok := env.vars[e.Name]; ok {
			return ciTerm{lean: e.Name, typ: t}, nil
		}
		return ciTerm{}, g.errf(e, "unknown identifier")
	case *ast.CallExpr:
		id, isId := e.Fun.(*ast.Ident)
		if !isId || len(e.Args) != 1 {
			return ciTerm{}, g.errf(e, "call")
		}
		x, err := g.expr(env, e.Args[0])
		if err != nil {
			return x, err
		}
		switch id.Name {
		case "int64Const", "int64":
			// conversion between 64-bit integer types: same bits
			if x.typ == "i64" || x.typ == "u64" {
				return ciTerm{lean: x.lean, typ: "i64", guards: x.guards}, nil
			}
		case "uint64", "uint":
			if x.typ == "i64" || x.typ == "u64" {
				return ciTerm{lean: x.lean, typ: "u64", guards: x.guards}, nil
			}
		case "boolConst":
			if x.typ == "bool" {
				return ciTerm{lean: x.lean, typ: "boolConst", guards: x.guards}, nil
			}
		case "isSigned":
			k, err := g.coerce(e, x, "kind")
			if err != nil {
				return x, err
			}
			return ciTerm{lean: "(isSigned " + k + ")", typ: "bool", guards: x.guards}, nil
		case "maxUnsigned":
			k, err := g.coerce(e, x, "kind")
			if err != nil {
				return x, err
			}
			*env.ntemps++
			name := fmt.Sprintf("t%d", *env.ntemps)
			gs := append(append([]ciGuard{}, x.guards...), ciGuard{kind: "bind", term: "maxUnsigned " + k, name: name})
			return ciTerm{lean: name, typ: "u64", guards: gs}, nil
		}
		return ciTerm{}, g.errf(e, "call of %s on %s", id.Name, x.typ)
	case *ast.UnaryExpr:
		x, err := g.expr(env, e.X)
		if err != nil {
			return x, err
		}
		switch {
		case e.Op == token.SUB && x.typ == "i64":
			return ciTerm{lean: "(-" + x.lean + ")", typ: "i64", guards: x.guards}, nil
		case e.Op == token.XOR && (x.typ == "i64" || x.typ == "u64"):
			return ciTerm{lean: "(~~~" + x.lean + ")", typ: x.typ, guards: x.guards}, nil
		case e.Op == token.NOT && x.typ == "bool":
			return ciTerm{lean: "(!" + x.lean + ")", typ: "bool", guards: x.guards}, nil
		}
		return ciTerm{}, g.errf(e, "unary %s on %s", e.Op, x.typ)
	case *ast.BinaryExpr:
		x, err := g.expr(env, e.X)
		if err != nil {
			return x, err
		}
		y, err := g.expr(env, e.Y)
		if err != nil {
			return y, err
		}
		gs := append(append([]ciGuard{}, x.guards...), y.guards...)
		// booleans
		if x.typ == "bool" && y.typ == "bool" {
			var op string
			switch e.Op {
			case token.LAND:
				op = "&&"
			case token.LOR:
				op = "||"
			case token.NEQ:
				op = "!="
			case token.EQL:
				op = "=="
			default:
				return ciTerm{}, g.errf(e, "boolean operator %s", e.Op)
			}
			return ciTerm{lean: "(" + x.lean + " " + op + " " + y.lean + ")", typ: "bool", guards: gs}, nil
		}
		// operand type: that of the non-constant side
		t := x.typ
		if t == "const" {
			t = y.typ
		}
		if t == "const" || t == "bool" || t == "boolConst" {
			return ciTerm{}, g.errf(e, "operands %s %s %s", x.typ, e.Op, y.typ)
		}
		if e.Op == token.SHR || e.Op == token.SHL {
			// only `int64 >> uint` is in the subset
			if e.Op == token.SHR && x.typ == "i64" && y.typ == "u64" {
				return ciTerm{lean: "(BitVec.sshiftRight " + x.lean + " " + y.lean + ".toNat)", typ: "i64", guards: gs}, nil
			}
			return ciTerm{}, g.errf(e, "shift %s %s %s", x.typ, e.Op, y.typ)
		}
		a, err := g.coerce(e.X, x, t)
		if err != nil {
			return x, err
		}
		b, err := g.coerce(e.Y, y, t)
		if err != nil {
			return y, err
		}
		if t == "kind" {
			switch e.Op {
			case token.LEQ:
				return ciTerm{lean: "(decide (" + a + " ≤ " + b + "))", typ: "bool", guards: gs}, nil
			case token.EQL:
				return ciTerm{lean: "(" + a + " == " + b + ")", typ: "bool", guards: gs}, nil
			case token.SUB:
				// reflect.Kind is a uint: the subtraction wraps around, which the model keeps
				return ciTerm{lean: "(BitVec.ofNat 64 " + a + " - BitVec.ofNat 64 " + b + ").toNat", typ: "index", guards: gs}, nil
			}
			return ciTerm{}, g.errf(e, "operator %s on reflect.Kind", e.Op)
		}
		signed := t == "i64"
		bin := func(f string) (ciTerm, error) {
			return ciTerm{lean: "(" + a + " " + f + " " + b + ")", typ: t, guards: gs}, nil
		}
		cmp := func(s, u string, swap bool) (ciTerm, error) {
			f := u
			if signed {
				f = s
			}
			l, r := a, b
			if swap {
				l, r = b, a
			}
			return ciTerm{lean: "(BitVec." + f + " " + l + " " + r + ")", typ: "bool", guards: gs}, nil
		}
		switch e.Op {
		case token.ADD:
			return bin("+")
		case token.SUB:
			return bin("-")
		case token.MUL:
			return bin("*")
		case token.AND:
			return bin("&&&")
		case token.OR:
			return bin("|||")
		case token.XOR:
			return bin("^^^")
		case token.AND_NOT:
			return ciTerm{lean: "(" + a + " &&& ~~~" + b + ")", typ: t, guards: gs}, nil
		case token.QUO, token.REM:
			// Go panics on a zero divisor: checked in the model
			f := map[bool]map[token.Token]string{true: {token.QUO: "sdiv", token.REM: "srem"}, false: {token.QUO: "udiv", token.REM: "umod"}}[signed][e.Op]
			gs = append(gs, ciGuard{kind: "div", term: b})
			return ciTerm{lean: "(BitVec." + f + " " + a + " " + b + ")", typ: t, guards: gs}, nil
		case token.EQL:
			return ciTerm{lean: "(" + a + " == " + b + ")", typ: "bool", guards: gs}, nil
		case token.NEQ:
			return ciTerm{lean: "(" + a + " != " + b + ")", typ: "bool", guards: gs}, nil
		case token.LSS:
			return cmp("slt", "ult", false)
		case token.LEQ:
			return cmp("sle", "ule", false)
		case token.GTR:
			return cmp("slt", "ult", true)
		case token.GEQ:
			return cmp("sle", "ule", true)
		}
		return ciTerm{}, g.errf(e, "operator %s", e.Op)
	}
	return ciTerm{}, g.errf(e, "expression")
}

func ciWrap(gs []ciGuard, body, panicTerm string) string {
	for i := len(gs) - 1; i >= 0; i-- {
		switch gs[i].kind {
		case "div":
			body = "(if " + gs[i].term + " == 0#64 then " + panicTerm + " else " + body + ")"
		case "bind":
			body = "(match " + gs[i].term + " with | none => " + panicTerm + " | some " + gs[i].name + " => " + body + ")"
		}
	}
	return body
}

// ---------------------------------------------------------------------------------------------
// statement lists of one `case` of int64Const.binaryOp / unaryOp → a FastResult term

const ciNegBigAssign = "i := new(big.Int).SetInt64(int64(c1))"
const ciNegBigReturn = "return intConst{i: i.Neg(i)}, nil"

func (g *ciGen) stmts(env *ciEnv, list []ast.Stmt) (string, error) {
	if len(list) == 0 {
		return "", fmt.Errorf("shape not recognised: a case falls off its end")
	}
	s, rest := list[0], list[1:]
	switch s := s.(type) {
	case *ast.AssignStmt:
		if g.src(s) == ciNegBigAssign && len(rest) == 1 && g.src(rest[0]) == ciNegBigReturn {
			return ".useBig", nil // exact negation computed by math/big
		}
		if s.Tok != token.DEFINE || len(s.Lhs) != 1 || len(s.Rhs) != 1 {
			return "", g.errf(s, "assignment")
		}
		id, ok := s.Lhs[0].(*ast.Ident)
		if !ok {
			return "", g.errf(s, "assignment target")
		}
		if g.src(s.Rhs[0]) == "typ.Kind()" {
			env.vars[id.Name] = "kind"
			r, err := g.stmts(env, rest)
			return "let " + id.Name + " := kind; " + r, err
		}
		t, err := g.expr(env, s.Rhs[0])
		if err != nil {
			return "", err
		}
		if t.typ != "i64" && t.typ != "u64" {
			return "", g.errf(s, "assigned value of type %s", t.typ)
		}
		if _, dup := env.vars[id.Name]; dup {
			return "", g.errf(s, "variable declared twice")
		}
		env.vars[id.Name] = t.typ
		r, err := g.stmts(env, rest)
		if err != nil {
			return "", err
		}
		return ciWrap(t.guards, "let "+id.Name+" := "+t.lean+"; "+r, ".goPanic"), nil
	case *ast.IfStmt:
		if s.Init != nil || s.Else != nil {
			return "", g.errf(s, "if with init or else")
		}
		c, err := g.expr(env, s.Cond)
		if err != nil {
			return "", err
		}
		if c.typ != "bool" {
			return "", g.errf(s.Cond, "condition of type %s", c.typ)
		}
		inner := &ciEnv{vars: map[string]string{}, ntemps: env.ntemps}
		for k, v := range env.vars {
			inner.vars[k] = v
		}
		th, err := g.stmts(inner, s.Body.List)
		if err != nil {
			return "", err
		}
		el, err := g.stmts(env, rest)
		if err != nil {
			return "", err
		}
		return ciWrap(c.guards, "(if "+c.lean+" then ("+th+") else "+el+")", ".goPanic"), nil
	case *ast.ReturnStmt:
		if len(rest) != 0 {
			return "", g.errf(rest[0], "statement after return")
		}
		switch g.src(s) {
		case "return nil, errDivisionByZero":
			return ".divZero", nil
		case "return nil, errInvalidOperation":
			return ".invalidOp", nil
		case "return n1.asInt().binaryOp(op, n2.asInt())", "return newIntConst(int64(c1)).unaryOp(op, typ)":
			return ".useBig", nil // the same operation on the same values, by math/big
		}
		if len(s.Results) != 2 || g.src(s.Results[1]) != "nil" {
			return "", g.errf(s, "return")
		}
		t, err := g.expr(env, s.Results[0])
		if err != nil {
			return "", err
		}
		switch t.typ {
		case "boolConst":
			return ciWrap(t.guards, ".bool "+t.lean, ".goPanic"), nil
		case "i64":
			return ciWrap(t.guards, ".value "+t.lean, ".goPanic"), nil
		case "const":
			if t.c.typ == "int64" {
				return ".value " + ciBV(t.c.v), nil
			}
		}
		return "", g.errf(s, "returned value of type %s", t.typ)
	}
	return "", g.errf(s, "statement")
}

var ciBinOps = []struct{ goName, lean string }{
	{"OperatorEqual", "eq"}, {"OperatorNotEqual", "ne"}, {"OperatorLess", "lt"}, {"OperatorLessEqual", "le"},
	{"OperatorGreater", "gt"}, {"OperatorGreaterEqual", "ge"},
	{"OperatorAddition", "add"}, {"OperatorSubtraction", "sub"}, {"OperatorMultiplication", "mul"},
	{"OperatorDivision", "quo"}, {"OperatorModulo", "rem"},
	{"OperatorBitAnd", "and"}, {"OperatorBitOr", "or"}, {"OperatorXor", "xor"}, {"OperatorAndNot", "andNot"},
}

var ciUnOps = []struct{ goName, lean string }{
	{"OperatorAddition", "plus"}, {"OperatorSubtraction", "neg"}, {"OperatorXor", "xor"},
}

// opCases maps the single-label cases `case ast.OperatorX:` of a switch on op to their bodies.
func (g *ciGen) opCases(sw *ast.SwitchStmt) (map[string][]ast.Stmt, []ast.Stmt, error) {
	if sw.Init != nil || g.src(sw.Tag) != "op" {
		return nil, nil, g.errf(sw, "switch on op expected")
	}
	res := map[string][]ast.Stmt{}
	var def []ast.Stmt
	for _, c := range sw.Body.List {
		cc := c.(*ast.CaseClause)
		if cc.List == nil {
			def = cc.Body
			continue
		}
		if len(cc.List) != 1 {
			return nil, nil, g.errf(cc, "case with several operators")
		}
		sel, ok := cc.List[0].(*ast.SelectorExpr)
		if !ok || g.src(sel.X) != "ast" {
			return nil, nil, g.errf(cc, "case label")
		}
		if _, dup := res[sel.Sel.Name]; dup {
			return nil, nil, g.errf(cc, "duplicate case")
		}
		res[sel.Sel.Name] = cc.Body
	}
	return res, def, nil
}

const ciShiftPrologue = `if op == ast.OperatorLeftShift || op == ast.OperatorRightShift { if err := shiftConstError(op, c2); err != nil { return nil, err } sc := uint(c2.uint64()) if op == ast.OperatorLeftShift { i := big.NewInt(int64(c1)) n := intConst{i: i.Lsh(i, sc)} if n.overflow() { return intConst{}, errors.New("constant shift overflow") } return n, nil } return c1 >> sc, nil }`

const ciBigShiftPrologue = `if op == ast.OperatorLeftShift || op == ast.OperatorRightShift { if err := shiftConstError(op, c2); err != nil { return nil, err } sc := uint(c2.uint64()) i := new(big.Int).Set(c1.i) if op == ast.OperatorLeftShift { c := intConst{i: i.Lsh(i, sc)} if c.overflow() { return intConst{}, errors.New("constant shift overflow") } return c, nil } return intConst{i: i.Rsh(i, sc)}, nil }`

const ciBigBinaryMiddle = `n1 := c1 | n2, ok := c2.(intConst) | if !ok { d1, d2 := toSameConstImpl(c1, c2) return d1.binaryOp(op, d2) }`
const ciFastBinaryMiddle = `n1 := c1 | n2, ok := c2.(int64Const) | if !ok { d1, d2 := toSameConstImpl(c1, c2) return d1.binaryOp(op, d2) }`

func (g *ciGen) genFastBinary() error {
	fd, err := g.method("int64Const", "binaryOp")
	if err != nil {
		return err
	}
	b := fd.Body.List
	if len(b) != 6 {
		return g.errf(fd.Body, "int64Const.binaryOp: 6 statements expected, found %d", len(b))
	}
	if got := g.src(b[0]); got != ciShiftPrologue {
		return g.errf(b[0], "int64Const.binaryOp: shift prologue")
	}
	if got := g.src(b[1]) + " | " + g.src(b[2]) + " | " + g.src(b[3]); got != ciFastBinaryMiddle {
		return g.errf(b[1], "int64Const.binaryOp: operand dispatch")
	}
	sw, ok := b[4].(*ast.SwitchStmt)
	if !ok {
		return g.errf(b[4], "switch expected")
	}
	cases, def, err := g.opCases(sw)
	if err != nil {
		return err
	}
	if def != nil {
		return g.errf(sw, "default case in int64Const.binaryOp")
	}
	if len(cases) != len(ciBinOps) {
		return g.errf(sw, "int64Const.binaryOp handles %d operators, %d expected", len(cases), len(ciBinOps))
	}
	tail, err := g.stmts(&ciEnv{vars: map[string]string{}, ntemps: new(int)}, b[5:])
	if err != nil {
		return err
	}
	if tail != ".invalidOp" {
		return g.errf(b[5], "int64Const.binaryOp: final return")
	}
	w := &g.out
	fmt.Fprintf(w, "/-- `int64Const.binaryOp` for two int64 constants, one arm per `case` (%s) -/\n", g.fset.Position(sw.Pos()))
	fmt.Fprintf(w, "def fastBinary (op : Op) (n1 n2 : BitVec 64) : FastResult :=\n  match op with\n")
	for _, o := range ciBinOps {
		body, ok := cases[o.goName]
		if !ok {
			return g.errf(sw, "no case for ast.%s", o.goName)
		}
		env := &ciEnv{vars: map[string]string{"n1": "i64", "n2": "i64"}, ntemps: new(int)}
		t, err := g.stmts(env, body)
		if err != nil {
			return err
		}
		fmt.Fprintf(w, "  | .%s => %s\n", o.lean, t)
	}
	// the right shift of the int64 path: `return c1 >> sc, nil` (inside the recognised prologue)
	fmt.Fprintf(w, "\n/-- `c1 >> sc` of the recognised shift prologue of `int64Const.binaryOp`; `sc` is a `uint` -/\n")
	env := &ciEnv{vars: map[string]string{"c1": "i64", "sc": "u64"}, ntemps: new(int)}
	ifs := b[0].(*ast.IfStmt).Body.List
	t, err := g.stmts(env, ifs[len(ifs)-1:])
	if err != nil {
		return err
	}
	fmt.Fprintf(w, "def fastShr (c1 sc : BitVec 64) : FastResult := %s\n", t)
	return nil
}

func (g *ciGen) genFastUnary() error {
	fd, err := g.method("int64Const", "unaryOp")
	if err != nil {
		return err
	}
	b := fd.Body.List
	if len(b) != 2 {
		return g.errf(fd.Body, "int64Const.unaryOp: 2 statements expected")
	}
	sw, ok := b[0].(*ast.SwitchStmt)
	if !ok {
		return g.errf(b[0], "switch expected")
	}
	cases, def, err := g.opCases(sw)
	if err != nil {
		return err
	}
	if def != nil || len(cases) != len(ciUnOps) {
		return g.errf(sw, "int64Const.unaryOp: cases")
	}
	if g.src(b[1]) != "return nil, errInvalidOperation" {
		return g.errf(b[1], "int64Const.unaryOp: final return")
	}
	w := &g.out
	fmt.Fprintf(w, "\n/-- `int64Const.unaryOp`; `kind` is `typ.Kind()` (%s) -/\n", g.fset.Position(sw.Pos()))
	fmt.Fprintf(w, "def fastUnary (op : UOp) (kind : Nat) (c1 : BitVec 64) : FastResult :=\n  match op with\n")
	for _, o := range ciUnOps {
		body, ok := cases[o.goName]
		if !ok {
			return g.errf(sw, "no case for ast.%s", o.goName)
		}
		env := &ciEnv{vars: map[string]string{"c1": "i64"}, ntemps: new(int)}
		t, err := g.stmts(env, body)
		if err != nil {
			return err
		}
		fmt.Fprintf(w, "  | .%s => %s\n", o.lean, t)
	}
	return nil
}

// tables: maxUnsignedValues, maxBigUnsignedValues and their accessors
func (g *ciGen) genTables() error {
	w := &g.out
	for _, tb := range []struct{ name, acc, elem, leanT string }{
		{"maxUnsignedValues", "maxUnsigned", "uint64", "BitVec 64"},
		{"maxBigUnsignedValues", "maxBigUnsigned", "*big.Int", "Int"},
	} {
		init, ok := g.vars[tb.name]
		if !ok {
			return fmt.Errorf("shape not recognised: var %s not found", tb.name)
		}
		cl, ok := init.(*ast.CompositeLit)
		if !ok || g.src(cl.Type) != "[...]"+tb.elem {
			return g.errf(init, "%s: array literal [...]%s expected", tb.name, tb.elem)
		}
		var elems []string
		for _, el := range cl.Elts {
			if _, isKV := el.(*ast.KeyValueExpr); isKV {
				return g.errf(el, "keyed element")
			}
			arg := el
			if tb.elem == "*big.Int" {
				call, ok := el.(*ast.CallExpr)
				if !ok || len(call.Args) != 1 {
					return g.errf(el, "big.Int element")
				}
				switch g.src(call.Fun) {
				case "big.NewInt":
					arg = call.Args[0]
					c, ok, err := g.constEval(arg, 0)
					if err != nil || !ok || !ciFits(c.v, "int64") {
						return g.errf(el, "argument of big.NewInt")
					}
				case "new(big.Int).SetUint64":
					arg = call.Args[0]
					c, ok, err := g.constEval(arg, 0)
					if err != nil || !ok || !ciFits(c.v, "uint64") {
						return g.errf(el, "argument of SetUint64")
					}
				default:
					return g.errf(el, "big.Int element")
				}
			}
			c, ok, err := g.constEval(arg, 0)
			if err != nil {
				return err
			}
			if !ok {
				return g.errf(el, "element is not a constant")
			}
			if tb.elem == "uint64" {
				if c.typ != "uint64" || !ciFits(c.v, "uint64") {
					return g.errf(el, "element is not a uint64 constant")
				}
				elems = append(elems, ciBV(c.v))
			} else {
				elems = append(elems, c.v.String())
			}
		}
		fmt.Fprintf(w, "\n/-- `%s` with its real length (%s) -/\n", tb.name, g.fset.Position(cl.Pos()))
		fmt.Fprintf(w, "def %s : List (%s) := [%s]\n", tb.name, tb.leanT, strings.Join(elems, ", "))
		fd, err := g.method("", tb.acc)
		if err != nil {
			return err
		}
		if len(fd.Body.List) != 1 {
			return g.errf(fd, "%s: single return expected", tb.acc)
		}
		ret, ok := fd.Body.List[0].(*ast.ReturnStmt)
		if !ok || len(ret.Results) != 1 {
			return g.errf(fd, "%s: single return expected", tb.acc)
		}
		ix, ok := ret.Results[0].(*ast.IndexExpr)
		if !ok || g.src(ix.X) != tb.name {
			return g.errf(ret, "%s: index into %s expected", tb.acc, tb.name)
		}
		env := &ciEnv{vars: map[string]string{"kind": "kind"}, ntemps: new(int)}
		t, err := g.expr(env, ix.Index)
		if err != nil {
			return err
		}
		if t.typ != "index" || len(t.guards) != 0 {
			return g.errf(ix.Index, "index expression")
		}
		fmt.Fprintf(w, "/-- `%s`: the index expression `%s` with Go's unsigned wrap-around; `none` = index out of range (a run-time panic) -/\n", tb.acc, g.src(ix.Index))
		fmt.Fprintf(w, "def %s (kind : Nat) : Option (%s) := %s[%s]?\n", tb.acc, tb.leanT, tb.name, t.lean)
	}
	return nil
}

func (g *ciGen) genIsSigned() error {
	fd, err := g.method("", "isSigned")
	if err != nil {
		return err
	}
	if len(fd.Body.List) != 1 {
		return g.errf(fd, "isSigned: single return expected")
	}
	ret, ok := fd.Body.List[0].(*ast.ReturnStmt)
	if !ok || len(ret.Results) != 1 {
		return g.errf(fd, "isSigned: single return expected")
	}
	env := &ciEnv{vars: map[string]string{"kind": "kind"}, ntemps: new(int)}
	t, err := g.expr(env, ret.Results[0])
	if err != nil {
		return err
	}
	if t.typ != "bool" || len(t.guards) != 0 {
		return g.errf(ret, "isSigned: boolean expected")
	}
	fmt.Fprintf(&g.out, "\n/-- `isSigned` (%s) -/\ndef isSigned (kind : Nat) : Bool := %s\n", g.fset.Position(fd.Pos()), t.lean)
	return nil
}

// int64Const.representedBy: one range test per integer kind
func (g *ciGen) genRepFast() error {
	fd, err := g.method("int64Const", "representedBy")
	if err != nil {
		return err
	}
	b := fd.Body.List
	if len(b) != 3 || g.src(b[0]) != "n := int64(c1)" || g.src(b[2]) != `return nil, fmt.Errorf("constant %s overflows %s", c1, typ)` {
		return g.errf(fd.Body, "int64Const.representedBy: n := int64(c1); switch; return overflow error")
	}
	sw, ok := b[1].(*ast.SwitchStmt)
	if !ok || sw.Init != nil || g.src(sw.Tag) != "typ.Kind()" {
		return g.errf(b[1], "switch typ.Kind() expected")
	}
	w := &g.out
	fmt.Fprintf(w, "\n/-- `int64Const.representedBy`: per kind, the range test of the code (%s) -/\n", g.fset.Position(sw.Pos()))
	fmt.Fprintf(w, "def repFast (kind : Nat) (n : BitVec 64) : Rep :=\n")
	seen := map[reflect.Kind]bool{}
	hasDefault := false
	for _, c := range sw.Body.List {
		cc := c.(*ast.CaseClause)
		if cc.List == nil {
			if g.src(cc.Body[0]) != "return nil, errNotRepresentable" {
				return g.errf(cc, "default case")
			}
			hasDefault = true
			continue
		}
		var conds []string
		allInt, anyInt := true, false
		for _, l := range cc.List {
			k, ok := g.kindOf(l)
			if !ok {
				return g.errf(l, "case label is not a reflect.Kind")
			}
			if seen[k] {
				return g.errf(l, "duplicate kind")
			}
			seen[k] = true
			conds = append(conds, fmt.Sprintf("kind == %d", uint(k)))
			allInt = allInt && ciIsIntKind(k)
			anyInt = anyInt || ciIsIntKind(k)
		}
		if anyInt && !allInt {
			return g.errf(cc, "case mixes integer and non-integer kinds")
		}
		var res string
		if !allInt {
			res = ".notInteger" // floating-point and complex targets: outside this model
		} else {
			switch {
			case len(cc.Body) == 1 && g.src(cc.Body[0]) == "return c1, nil":
				res = ".ok"
			case len(cc.Body) == 1:
				ifs, ok := cc.Body[0].(*ast.IfStmt)
				if !ok || ifs.Init != nil || ifs.Else != nil || len(ifs.Body.List) != 1 || g.src(ifs.Body.List[0]) != "return c1, nil" {
					return g.errf(cc, "case body: if <range test> { return c1, nil }")
				}
				env := &ciEnv{vars: map[string]string{"n": "i64"}, ntemps: new(int)}
				t, err := g.expr(env, ifs.Cond)
				if err != nil {
					return err
				}
				if t.typ != "bool" || len(t.guards) != 0 {
					return g.errf(ifs.Cond, "range test")
				}
				res = "(if " + t.lean + " then .ok else .overflow)"
			default:
				return g.errf(cc, "case body")
			}
		}
		fmt.Fprintf(w, "  if %s then %s else\n", strings.Join(conds, " || "), res)
	}
	if !hasDefault {
		return g.errf(sw, "no default case")
	}
	for k := reflect.Int; k <= reflect.Uintptr; k++ {
		if !seen[k] {
			return g.errf(sw, "no case for kind %s", k)
		}
	}
	fmt.Fprintf(w, "  .notInteger\n")

	// intConst.representedBy
	fd, err = g.method("intConst", "representedBy")
	if err != nil {
		return err
	}
	const want = `if c1.i.IsInt64() { return int64Const(c1.i.Int64()).representedBy(typ) } | k := typ.Kind() | if c1.i.IsUint64() { if COND1 { return c1, nil } } | if COND2 { return nil, fmt.Errorf("constant %s overflows %s", c1, typ) }`
	bb := fd.Body.List
	if len(bb) != 6 {
		return g.errf(fd.Body, "intConst.representedBy: 6 statements expected")
	}
	if1, ok1 := bb[2].(*ast.IfStmt)
	if2, ok2 := bb[3].(*ast.IfStmt)
	if !ok1 || !ok2 || len(if1.Body.List) != 1 {
		return g.errf(fd.Body, "intConst.representedBy")
	}
	inner, ok := if1.Body.List[0].(*ast.IfStmt)
	if !ok {
		return g.errf(if1, "intConst.representedBy: inner if")
	}
	got := g.src(bb[0]) + " | " + g.src(bb[1]) + " | " + g.src(bb[2]) + " | " + g.src(bb[3])
	exp := strings.Replace(strings.Replace(want, "COND1", g.src(inner.Cond), 1), "COND2", g.src(if2.Cond), 1)
	if got != exp {
		return g.errf(fd.Body, "intConst.representedBy: statement shapes")
	}
	env := &ciEnv{vars: map[string]string{"k": "kind"}, ntemps: new(int)}
	t1, err := g.boolOverKind(env, inner.Cond)
	if err != nil {
		return err
	}
	t2, err := g.boolOverKind(env, if2.Cond)
	if err != nil {
		return err
	}
	fmt.Fprintf(w, "\n/-- `intConst.representedBy`, value outside int64 but inside uint64: kinds that accept it (%s) -/\n", g.fset.Position(inner.Pos()))
	fmt.Fprintf(w, "def repBigUint64 (k : Nat) : Bool := %s\n", t1)
	fmt.Fprintf(w, "/-- `intConst.representedBy`: kinds for which any other value is an overflow -/\n")
	fmt.Fprintf(w, "def repBigIntKind (k : Nat) : Bool := %s\n", t2)
	return nil
}

// boolOverKind translates a condition over a reflect.Kind variable; `strconv.IntSize == 64` folds (amd64).
func (g *ciGen) boolOverKind(env *ciEnv, e ast.Expr) (string, error) {
	switch e := e.(type) {
	case *ast.ParenExpr:
		s, err := g.boolOverKind(env, e.X)
		return "(" + s + ")", err
	case *ast.BinaryExpr:
		if e.Op == token.LAND || e.Op == token.LOR {
			a, err := g.boolOverKind(env, e.X)
			if err != nil {
				return "", err
			}
			b, err := g.boolOverKind(env, e.Y)
			if err != nil {
				return "", err
			}
			return a + " " + e.Op.String() + " " + b, nil
		}
		if g.src(e) == "strconv.IntSize == 64" {
			return "(intSize == 64)", nil
		}
	}
	t, err := g.expr(env, e)
	if err != nil {
		return "", err
	}
	if t.typ != "bool" || len(t.guards) != 0 {
		return "", g.errf(e, "condition over a kind")
	}
	return t.lean, nil
}

// intConst.binaryOp / unaryOp: which math/big method, with which checks
func (g *ciGen) genBig() error {
	fd, err := g.method("intConst", "binaryOp")
	if err != nil {
		return err
	}
	b := fd.Body.List
	if len(b) != 6 || g.src(b[0]) != ciBigShiftPrologue || g.src(b[1])+" | "+g.src(b[2])+" | "+g.src(b[3]) != ciBigBinaryMiddle ||
		g.src(b[5]) != "return nil, errInvalidOperation" {
		return g.errf(fd.Body, "intConst.binaryOp: prologue / operand dispatch / final return")
	}
	sw, ok := b[4].(*ast.SwitchStmt)
	if !ok {
		return g.errf(b[4], "switch expected")
	}
	cases, def, err := g.opCases(sw)
	if err != nil {
		return err
	}
	const wantDef = `cmp := n1.i.Cmp(n2.i) switch op { case ast.OperatorEqual: return boolConst(cmp == 0), nil case ast.OperatorNotEqual: return boolConst(cmp != 0), nil case ast.OperatorLess: return boolConst(cmp < 0), nil case ast.OperatorLessEqual: return boolConst(cmp <= 0), nil case ast.OperatorGreater: return boolConst(cmp > 0), nil case ast.OperatorGreaterEqual: return boolConst(cmp >= 0), nil }`
	var defSrc []string
	for _, s := range def {
		defSrc = append(defSrc, g.src(s))
	}
	if strings.Join(defSrc, " ") != wantDef {
		return g.errf(sw, "intConst.binaryOp: comparison (default) case")
	}
	w := &g.out
	fmt.Fprintf(w, "\n/-- `intConst.binaryOp`: the math/big method per operator, whether the result goes through\n`overflow()` and whether a zero divisor is refused first (%s) -/\n", g.fset.Position(sw.Pos()))
	fmt.Fprintf(w, "def bigBinary : Op → BigOp\n")
	for _, o := range ciBinOps[:6] {
		fmt.Fprintf(w, "  | .%s => ⟨.Cmp, false, false⟩\n", o.lean)
	}
	errName := map[string]string{"Add": "addition", "Sub": "subtraction", "Mul": "multiplication",
		"And": "bitwise AND", "Or": "bitwise OR", "Xor": "bitwise XOR", "AndNot": "bitwise AND NOT"}
	n := 0
	for _, o := range ciBinOps[6:] {
		body, ok := cases[o.goName]
		if !ok {
			return g.errf(sw, "no case for ast.%s", o.goName)
		}
		n++
		var src []string
		for _, s := range body {
			src = append(src, g.src(s))
		}
		got := strings.Join(src, " ")
		found := false
		for _, m := range []string{"Add", "Sub", "Mul", "Quo", "Rem", "And", "Or", "Xor", "AndNot"} {
			plain := "return intConst{i: new(big.Int)." + m + "(n1.i, n2.i)}, nil"
			ovf := "c := intConst{i: new(big.Int)." + m + "(n1.i, n2.i)} if c.overflow() { return intConst{}, errors.New(\"constant " + errName[m] + " overflow\") } return c, nil"
			zero := "if n2.i.Sign() == 0 { return nil, errDivisionByZero } " + plain
			switch got {
			case plain:
				fmt.Fprintf(w, "  | .%s => ⟨.%s, false, false⟩\n", o.lean, m)
				found = true
			case ovf:
				fmt.Fprintf(w, "  | .%s => ⟨.%s, true, false⟩\n", o.lean, m)
				found = true
			case zero:
				fmt.Fprintf(w, "  | .%s => ⟨.%s, false, true⟩\n", o.lean, m)
				found = true
			}
		}
		if !found {
			return g.errf(body[0], "intConst.binaryOp: case ast.%s", o.goName)
		}
	}
	if n != len(cases) {
		return g.errf(sw, "intConst.binaryOp: unexpected extra cases")
	}

	fd, err = g.method("intConst", "unaryOp")
	if err != nil {
		return err
	}
	const wantUnaryHead = `switch op { case ast.OperatorAddition: return c1, nil case ast.OperatorSubtraction: i := new(big.Int).Set(c1.i) return intConst{i: i.Neg(i)}, nil case ast.OperatorXor: var m *big.Int if k := typ.Kind(); isSigned(k) { m = negativeOne } else { m = maxBigUnsigned(k) } i := new(big.Int).Set(c1.i) `
	const wantUnaryTail = ` } return nil, errInvalidOperation`
	var us []string
	for _, s := range fd.Body.List {
		us = append(us, g.src(s))
	}
	complChecks := ""
	switch strings.Join(us, " ") {
	case wantUnaryHead + `return intConst{i: i.Xor(m, i)}, nil` + wantUnaryTail:
		complChecks = "false"
	case wantUnaryHead + `c := intConst{i: i.Xor(m, i)} if c.overflow() { return intConst{}, errors.New("constant bitwise complement overflow") } return c, nil` + wantUnaryTail:
		complChecks = "true"
	default:
		return g.errf(fd.Body, "intConst.unaryOp")
	}
	if v, ok := g.vars["negativeOne"]; !ok || g.src(v) != "big.NewInt(-1)" {
		return fmt.Errorf("shape not recognised: var negativeOne = big.NewInt(-1)")
	}
	fmt.Fprintf(w, "\n/-- `intConst.unaryOp`, `^`: the mask `m` of `i.Xor(m, i)`; `none` = index out of range (%s) -/\n", g.fset.Position(fd.Pos()))
	fmt.Fprintf(w, "def bigXorMask (k : Nat) : Option Int := if isSigned k then some (-1) else maxBigUnsigned k\n")
	fmt.Fprintf(w, "/-- `intConst.unaryOp`, `^`: whether the result goes through `overflow()` -/\n")
	fmt.Fprintf(w, "def bigComplChecksOverflow : Bool := %s\n", complChecks)

	// intConst.overflow
	fd, err = g.method("intConst", "overflow")
	if err != nil {
		return err
	}
	if len(fd.Body.List) != 1 {
		return g.errf(fd, "intConst.overflow")
	}
	ret, ok := fd.Body.List[0].(*ast.ReturnStmt)
	if !ok || len(ret.Results) != 1 {
		return g.errf(fd, "intConst.overflow")
	}
	be, ok := ret.Results[0].(*ast.BinaryExpr)
	if !ok || be.Op != token.GTR || g.src(be.X) != "c1.i.BitLen()" {
		return g.errf(ret, "intConst.overflow: c1.i.BitLen() > N expected")
	}
	c, ok, err := g.constEval(be.Y, 0)
	if err != nil || !ok || c.v.Sign() <= 0 || c.v.BitLen() > 16 {
		return g.errf(be.Y, "intConst.overflow: limit")
	}
	fmt.Fprintf(w, "\n/-- `intConst.overflow`: a value overflows when the bit length of its absolute value exceeds this (%s) -/\n", g.fset.Position(fd.Pos()))
	fmt.Fprintf(w, "def overflowBits : Nat := %s\n", c.v)
	return nil
}

func (g *ciGen) genShiftGuard() error {
	fd, err := g.method("", "shiftConstError")
	if err != nil {
		return err
	}
	const want = `if c, _ := c.representedBy(TYPE); c != nil { if op == ast.OperatorLeftShift { if ok, _ := c.binaryOp(ast.OperatorGreaterEqual, int64Const(LIMIT)); ok.bool() { return errShiftCountTooLarge } } return nil } | switch n := c.(type) { case int64Const: if n < 0 { return errNegativeShiftCount } return errConstantOverflowUint case intConst: if n.i.Sign() < 0 { return errNegativeShiftCount } return errConstantOverflowUint } | return errShiftCountTruncatedToInteger`
	b := fd.Body.List
	if len(b) != 3 {
		return g.errf(fd.Body, "shiftConstError: 3 statements expected")
	}
	first, ok := b[0].(*ast.IfStmt)
	if !ok || first.Init == nil {
		return g.errf(b[0], "shiftConstError")
	}
	as, ok := first.Init.(*ast.AssignStmt)
	if !ok || len(as.Rhs) != 1 {
		return g.errf(b[0], "shiftConstError")
	}
	call, ok := as.Rhs[0].(*ast.CallExpr)
	if !ok || len(call.Args) != 1 {
		return g.errf(b[0], "shiftConstError: representedBy call")
	}
	typ := g.src(call.Args[0])
	var limit ast.Expr
	ast.Inspect(first.Body, func(n ast.Node) bool {
		if c, ok := n.(*ast.CallExpr); ok && g.src(c.Fun) == "int64Const" && len(c.Args) == 1 {
			limit = c.Args[0]
		}
		return true
	})
	if limit == nil {
		return g.errf(first, "shiftConstError: limit")
	}
	lim, lok, err := g.constEval(limit, 0)
	if err != nil || !lok || lim.v.Sign() <= 0 || lim.v.BitLen() > 32 {
		return g.errf(limit, "shiftConstError: limit")
	}
	exp := strings.Replace(strings.Replace(want, "TYPE", typ, 1), "LIMIT", g.src(limit), 1)
	if got := g.src(b[0]) + " | " + g.src(b[1]) + " | " + g.src(b[2]); got != exp {
		return g.errf(fd.Body, "shiftConstError: statement shapes")
	}
	kinds := map[string]reflect.Kind{"uintType": reflect.Uint, "uint64Type": reflect.Uint64, "uint32Type": reflect.Uint32, "intType": reflect.Int}
	k, ok := kinds[typ]
	if !ok {
		return g.errf(call.Args[0], "shiftConstError: count type")
	}
	if v, ok := g.vars[typ]; !ok || g.src(v) != "reflect.TypeFor["+strings.TrimSuffix(typ, "Type")+"]()" {
		return fmt.Errorf("shape not recognised: var %s = reflect.TypeFor[…]()", typ)
	}
	w := &g.out
	fmt.Fprintf(w, "\n/-- `shiftConstError`: the count must be representable by this kind … (%s) -/\n", g.fset.Position(fd.Pos()))
	fmt.Fprintf(w, "def shiftCountKind : Nat := %d\n", uint(k))
	fmt.Fprintf(w, "/-- … and, for `<<` only, smaller than this -/\n")
	fmt.Fprintf(w, "def shiftLeftLimit : Nat := %s\n", lim.v)
	return nil
}


// ---------------------------------------------------------------------------------------------
// toSameConstImpl / asFloatingPoint: which implementation two operands are brought to, and by which
// conversion functions.  Every conversion expression is decomposed into primitive steps; a step that
// can round (int64 → float64, big.Rat → 512-bit big.Float) is a different step from an exact one, so an
// inexact promotion is a changed definition.

var ciImplOf = map[string]string{"int64Const": "small", "intConst": "big", "float64Const": "f64", "floatConst": "bigf", "ratConst": "rat"}

// convSteps translates a conversion expression over the variable `name` (of implementation impl);
// it returns the steps and the resulting implementation.
func (g *ciGen) convSteps(e ast.Expr, vars map[string]string) ([]string, string, error) {
	// value types while translating: small big f64 bigf rat (constants), rawi64, rawf64 (Go numbers)
	var tr func(e ast.Expr) ([]string, string, error)
	tr = func(e ast.Expr) ([]string, string, error) {
		switch e := e.(type) {
		case *ast.Ident:
			if t, ok := vars[e.Name]; ok {
				return nil, t, nil
			}
		case *ast.CallExpr:
			fun := g.src(e.Fun)
			switch {
			case (fun == "int64" || fun == "float64") && len(e.Args) == 1:
				st, t, err := tr(e.Args[0])
				if err != nil {
					return nil, "", err
				}
				switch {
				case fun == "int64" && t == "small":
					return st, "rawi64", nil
				case fun == "float64" && t == "f64":
					return st, "rawf64", nil
				case fun == "float64" && (t == "small" || t == "rawi64"):
					return append(st, "i64ToF64"), "rawf64", nil // rounds to 53 bits
				case fun == "int64" && t == "rawi64", fun == "float64" && t == "rawf64":
					return st, t, nil
				}
			case fun == "newIntConst" && len(e.Args) == 1:
				st, t, err := tr(e.Args[0])
				if err == nil && t == "rawi64" {
					return append(st, "i64ToBig"), "big", nil
				}
			case fun == "newFloatConst" && len(e.Args) == 1:
				st, t, err := tr(e.Args[0])
				if err == nil && t == "rawf64" {
					return append(st, "f64ToBigFloat"), "bigf", nil
				}
			case fun == "newFloatConst(0).setInt64" && len(e.Args) == 1:
				st, t, err := tr(e.Args[0])
				if err == nil && t == "rawi64" {
					return append(st, "i64ToBigFloat"), "bigf", nil
				}
			case fun == "newFloatConst(0).setInt" && len(e.Args) == 1:
				if sel, ok := e.Args[0].(*ast.SelectorExpr); ok && sel.Sel.Name == "i" {
					st, t, err := tr(sel.X)
					if err == nil && t == "big" {
						return append(st, "bigToBigFloat"), "bigf", nil
					}
				}
			case fun == "newFloatConst(0).setRat" && len(e.Args) == 1:
				if sel, ok := e.Args[0].(*ast.SelectorExpr); ok && sel.Sel.Name == "r" {
					st, t, err := tr(sel.X)
					if err == nil && t == "rat" {
						return append(st, "ratToBigFloat"), "bigf", nil // rounds to 512 bits
					}
				}
			case fun == "newRatConst" && len(e.Args) == 2 && g.src(e.Args[1]) == "1":
				st, t, err := tr(e.Args[0])
				if err == nil && t == "rawi64" {
					return append(st, "i64ToRat"), "rat", nil
				}
			case fun == "newRatConst(1, 1).setFrac" && len(e.Args) == 2 && g.src(e.Args[1]) == "big.NewInt(1)":
				if sel, ok := e.Args[0].(*ast.SelectorExpr); ok && sel.Sel.Name == "i" {
					st, t, err := tr(sel.X)
					if err == nil && t == "big" {
						return append(st, "bigToRat"), "rat", nil
					}
				}
			case fun == "newRatConst(1, 1).setFloat64" && len(e.Args) == 1:
				st, t, err := tr(e.Args[0])
				if err == nil && t == "rawf64" {
					return append(st, "f64ToRat"), "rat", nil
				}
			}
		}
		return nil, "", g.errf(e, "conversion expression")
	}
	return tr(e)
}

func ciStepList(st []string) string {
	var b []string
	for _, s := range st {
		b = append(b, "."+s)
	}
	return "[" + strings.Join(b, ", ") + "]"
}

func (g *ciGen) genPromote() error {
	fd, err := g.method("", "toSameConstImpl")
	if err != nil {
		return err
	}
	b := fd.Body.List
	if len(b) != 3 || g.src(b[1]) != "n2, n1 := toSameConstImpl(c2, c1)" || g.src(b[2]) != "return n1, n2" {
		return g.errf(fd.Body, "toSameConstImpl: type switch; swapped recursive call; return")
	}
	outer, ok := b[0].(*ast.TypeSwitchStmt)
	if !ok || g.src(outer.Assign) != "n1 := c1.(type)" {
		return g.errf(b[0], "toSameConstImpl: switch n1 := c1.(type)")
	}
	type entry struct{ s1, s2 []string }
	table := map[[2]string]entry{}
	for _, c := range outer.Body.List {
		cc := c.(*ast.CaseClause)
		if len(cc.List) != 1 || len(cc.Body) != 1 {
			return g.errf(cc, "toSameConstImpl: outer case")
		}
		i1, ok := ciImplOf[g.src(cc.List[0])]
		if !ok {
			return g.errf(cc.List[0], "toSameConstImpl: implementation type")
		}
		inner, ok := cc.Body[0].(*ast.TypeSwitchStmt)
		if !ok || g.src(inner.Assign) != "n2 := c2.(type)" {
			return g.errf(cc.Body[0], "toSameConstImpl: switch n2 := c2.(type)")
		}
		for _, c2 := range inner.Body.List {
			cc2 := c2.(*ast.CaseClause)
			if len(cc2.List) != 1 || len(cc2.Body) != 1 {
				return g.errf(cc2, "toSameConstImpl: inner case")
			}
			if g.src(cc2.List[0]) == "complexConst" {
				// a real constant becomes the complex constant with that real part and imaginary part int64Const(0)
				if len(cc2.Body) != 1 || g.src(cc2.Body[0]) != "return newComplexConst(n1, int64Const(0)), n2" {
					return g.errf(cc2, "toSameConstImpl: promotion to complexConst")
				}
				continue
			}
			i2, ok := ciImplOf[g.src(cc2.List[0])]
			if !ok {
				return g.errf(cc2.List[0], "toSameConstImpl: implementation type")
			}
			ret, ok := cc2.Body[0].(*ast.ReturnStmt)
			if !ok || len(ret.Results) != 2 {
				return g.errf(cc2.Body[0], "toSameConstImpl: return of two constants")
			}
			vars := map[string]string{"n1": i1, "n2": i2}
			s1, t1, err := g.convSteps(ret.Results[0], vars)
			if err != nil {
				return err
			}
			s2, t2, err := g.convSteps(ret.Results[1], vars)
			if err != nil {
				return err
			}
			if t1 != t2 {
				return g.errf(ret, "toSameConstImpl: the two results have different implementations (%s, %s)", t1, t2)
			}
			if _, dup := table[[2]string{i1, i2}]; dup || i1 == i2 {
				return g.errf(cc2, "toSameConstImpl: duplicate or reflexive pair")
			}
			table[[2]string{i1, i2}] = entry{s1, s2}
		}
	}
	w := &g.out
	impls := []string{"small", "big", "f64", "bigf", "rat"}
	fmt.Fprintf(w, "\n/-- `toSameConstImpl`: for the implementations of (c1, c2), the conversion steps applied to c1 and to c2\n(with the swapped recursive call unfolded); `none`: the pair is not handled (the code would recurse forever) (%s) -/\n", g.fset.Position(fd.Pos()))
	fmt.Fprintf(w, "def promote : Impl → Impl → Option (List Step × List Step)\n")
	for _, i := range impls {
		for _, j := range impls {
			if e, ok := table[[2]string{i, j}]; ok {
				fmt.Fprintf(w, "  | .%s, .%s => some (%s, %s)\n", i, j, ciStepList(e.s1), ciStepList(e.s2))
			} else if e, ok := table[[2]string{j, i}]; ok {
				fmt.Fprintf(w, "  | .%s, .%s => some (%s, %s)\n", i, j, ciStepList(e.s2), ciStepList(e.s1))
			} else {
				fmt.Fprintf(w, "  | .%s, .%s => none\n", i, j)
			}
		}
	}
	// asFloatingPoint
	fd, err = g.method("", "asFloatingPoint")
	if err != nil {
		return err
	}
	b = fd.Body.List
	if len(b) != 2 || g.src(b[1]) != "return c" {
		return g.errf(fd.Body, "asFloatingPoint: type switch; return c")
	}
	ts, ok := b[0].(*ast.TypeSwitchStmt)
	if !ok || g.src(ts.Assign) != "c := c.(type)" {
		return g.errf(b[0], "asFloatingPoint: switch c := c.(type)")
	}
	conv := map[string][]string{}
	for _, c := range ts.Body.List {
		cc := c.(*ast.CaseClause)
		if len(cc.List) != 1 || len(cc.Body) != 1 {
			return g.errf(cc, "asFloatingPoint: case")
		}
		i, ok := ciImplOf[g.src(cc.List[0])]
		ret, ok2 := cc.Body[0].(*ast.ReturnStmt)
		if !ok || !ok2 || len(ret.Results) != 1 {
			return g.errf(cc, "asFloatingPoint: case")
		}
		st, t, err := g.convSteps(ret.Results[0], map[string]string{"c": i})
		if err != nil {
			return err
		}
		if t != "bigf" {
			return g.errf(ret, "asFloatingPoint: result is not a floatConst")
		}
		conv[i] = st
	}
	fmt.Fprintf(w, "\n/-- `asFloatingPoint`: conversion of an integer implementation before a floating-point division (%s) -/\n", g.fset.Position(fd.Pos()))
	fmt.Fprintf(w, "def asFloatingPoint : Impl → List Step\n")
	for _, i := range impls {
		fmt.Fprintf(w, "  | .%s => %s\n", i, ciStepList(conv[i]))
	}
	return nil
}

// ---------------------------------------------------------------------------------------------
// typechecker.binaryOp, both operands constant: the statements that select the kind of the operation
// (and with it integer vs. floating-point division) and the type of the result.

// glueExpr translates a condition / kind expression of the constant-folding glue.
func (g *ciGen) glueExpr(e ast.Expr, vars map[string]string) (string, string, error) {
	switch g.src(e) {
	case "t1.Type.Kind()", "t1.Type":
		return "k1", "kind", nil
	case "t2.Type.Kind()", "t2.Type":
		return "k2", "kind", nil
	case "t1.Untyped()":
		return "untyped1", "bool", nil
	case "isShift":
		return "isShift", "bool", nil
	case "op == ast.OperatorDivision":
		return "isQuo", "bool", nil
	case "evalToBoolOperators[op]":
		return "isBoolOp", "bool", nil
	case "boolType":
		return fmt.Sprint(uint(reflect.Bool)), "kind", nil
	case "intType":
		return fmt.Sprint(uint(reflect.Int)), "kind", nil
	}
	switch e := e.(type) {
	case *ast.ParenExpr:
		s, t, err := g.glueExpr(e.X, vars)
		return "(" + s + ")", t, err
	case *ast.Ident:
		if t, ok := vars[e.Name]; ok {
			return e.Name, t, nil
		}
	case *ast.UnaryExpr:
		if e.Op == token.NOT {
			s, t, err := g.glueExpr(e.X, vars)
			if err == nil && t == "bool" {
				return "(!" + s + ")", "bool", nil
			}
		}
	case *ast.CallExpr:
		if g.src(e.Fun) == "isInteger" && len(e.Args) == 1 {
			s, t, err := g.glueExpr(e.Args[0], vars)
			if err == nil && t == "kind" {
				return "(isIntegerKind " + s + ")", "bool", nil
			}
		}
	case *ast.BinaryExpr:
		a, ta, err := g.glueExpr(e.X, vars)
		if err != nil {
			return "", "", err
		}
		b, tb, err := g.glueExpr(e.Y, vars)
		if err != nil {
			return "", "", err
		}
		switch {
		case (e.Op == token.LAND || e.Op == token.LOR) && ta == "bool" && tb == "bool":
			return "(" + a + " " + e.Op.String() + " " + b + ")", "bool", nil
		case e.Op == token.LSS && ta == "kind" && tb == "kind":
			return "(decide (" + a + " < " + b + "))", "bool", nil
		}
	}
	return "", "", g.errf(e, "expression of the constant-folding glue")
}

func (g *ciGen) genFoldGlue() error {
	// isInteger
	fd, err := g.method("", "isInteger")
	if err != nil {
		return err
	}
	if len(fd.Body.List) != 1 {
		return g.errf(fd, "isInteger: single return expected")
	}
	ret, ok := fd.Body.List[0].(*ast.ReturnStmt)
	if !ok || len(ret.Results) != 1 {
		return g.errf(fd, "isInteger: single return expected")
	}
	t, err := g.boolOverKind(&ciEnv{vars: map[string]string{"k": "kind"}, ntemps: new(int)}, ret.Results[0])
	if err != nil {
		return err
	}
	w := &g.out
	fmt.Fprintf(w, "\n/-- `isInteger` (%s) -/\ndef isIntegerKind (k : Nat) : Bool := %s\n", g.fset.Position(fd.Pos()), t)
	fmt.Fprintf(w, "def kInt32Code : Nat := %d\ndef kFloat64 : Nat := %d\ndef kComplex128 : Nat := %d\n", uint(reflect.Int32), uint(reflect.Float64), uint(reflect.Complex128))

	fd, err = g.method("typechecker", "binaryOp")
	if err != nil {
		return err
	}
	var fold *ast.IfStmt
	for _, st := range fd.Body.List {
		if is, ok := st.(*ast.IfStmt); ok && g.src(is.Cond) == "t1.IsConstant() && t2.IsConstant()" {
			fold = is
		}
	}
	if fold == nil {
		return g.errf(fd, "binaryOp: if t1.IsConstant() && t2.IsConstant()")
	}
	var kindBlock *ast.IfStmt
	typAt := -1
	for i, st := range fold.Body.List {
		if is, ok := st.(*ast.IfStmt); ok && g.src(is.Cond) == "!isShift && !isStringContains" && is.Else == nil {
			kindBlock = is
		}
		if g.src(st) == "typ := t1.Type" {
			typAt = i
		}
	}
	if kindBlock == nil || typAt < 0 || typAt+1 >= len(fold.Body.List) {
		return g.errf(fold, "binaryOp: kind selection block / typ := t1.Type")
	}
	// the kind of the operation
	vars := map[string]string{}
	var lets []string
	asFloat := ""
	for _, st := range kindBlock.Body.List {
		switch st := st.(type) {
		case *ast.AssignStmt:
			if st.Tok != token.DEFINE || len(st.Lhs) != 1 || g.src(st.Lhs[0]) != "kind" {
				return g.errf(st, "binaryOp: kind selection statement")
			}
			e, t, err := g.glueExpr(st.Rhs[0], vars)
			if err != nil || t != "kind" {
				return g.errf(st, "binaryOp: kind := …")
			}
			vars["kind"] = "kind"
			lets = append(lets, "let kind := "+e+";")
		case *ast.IfStmt:
			if st.Init != nil || st.Else != nil || len(st.Body.List) != 1 {
				return g.errf(st, "binaryOp: kind selection statement")
			}
			body := st.Body.List[0]
			switch {
			case g.src(st.Cond) == "!t1.Untyped() && !operatorsOfKind[kind][op]" && strings.HasPrefix(g.src(body), "return nil, fmt.Errorf(\"operator %s not defined on %s\""):
				// typed operands: the operator must be defined on the type (typed constants of the model are integers)
			case g.src(body) == "c1 = asFloatingPoint(c1)":
				if asFloat != "" {
					return g.errf(st, "binaryOp: asFloatingPoint twice")
				}
				c, t, err := g.glueExpr(st.Cond, vars)
				if err != nil || t != "bool" {
					return g.errf(st.Cond, "binaryOp: condition of asFloatingPoint")
				}
				asFloat = c
			default:
				as, ok := body.(*ast.AssignStmt)
				if !ok || as.Tok != token.ASSIGN || len(as.Lhs) != 1 || g.src(as.Lhs[0]) != "kind" || vars["kind"] == "" {
					return g.errf(st, "binaryOp: kind selection statement")
				}
				c, tc, err := g.glueExpr(st.Cond, vars)
				if err != nil || tc != "bool" {
					return g.errf(st.Cond, "binaryOp: condition")
				}
				e, te, err := g.glueExpr(as.Rhs[0], vars)
				if err != nil || te != "kind" {
					return g.errf(as, "binaryOp: kind = …")
				}
				lets = append(lets, "let kind := if "+c+" then "+e+" else kind;")
			}
		default:
			return g.errf(st, "binaryOp: kind selection statement")
		}
	}
	if len(lets) == 0 || asFloat == "" {
		return g.errf(kindBlock, "binaryOp: kind := … / asFloatingPoint")
	}
	fmt.Fprintf(w, "\n/-- `typechecker.binaryOp`, two constant operands: the kind of the operation from the kinds of both\noperands (`untyped1` = the left operand is untyped) (%s) -/\n", g.fset.Position(kindBlock.Pos()))
	fmt.Fprintf(w, "def foldOpKind (untyped1 : Bool) (k1 k2 : Nat) : Nat :=\n  %s kind\n", strings.Join(lets, " "))
	fmt.Fprintf(w, "/-- … and whether the left operand goes through `asFloatingPoint` first (`isQuo` = the operator is `/`) -/\n")
	fmt.Fprintf(w, "def foldAsFloat (isQuo : Bool) (kind : Nat) : Bool := %s\n", asFloat)
	// the type of the result: typ := t1.Type; if … { typ = … } else if … { typ = … } …
	chain, ok := fold.Body.List[typAt+1].(*ast.IfStmt)
	if !ok {
		return g.errf(fold.Body.List[typAt+1], "binaryOp: if chain after typ := t1.Type")
	}
	res := "k1"
	var arms []string
	for is := chain; is != nil; {
		if is.Init != nil || len(is.Body.List) != 1 {
			return g.errf(is, "binaryOp: result type chain")
		}
		as, ok := is.Body.List[0].(*ast.AssignStmt)
		if !ok || as.Tok != token.ASSIGN || g.src(as.Lhs[0]) != "typ" {
			return g.errf(is, "binaryOp: result type chain")
		}
		c, tc, err := g.glueExpr(is.Cond, map[string]string{})
		if err != nil || tc != "bool" {
			return g.errf(is.Cond, "binaryOp: result type condition")
		}
		e, te, err := g.glueExpr(as.Rhs[0], map[string]string{})
		if err != nil || te != "kind" {
			return g.errf(as, "binaryOp: typ = …")
		}
		arms = append(arms, "if "+c+" then "+e+" else")
		switch el := is.Else.(type) {
		case nil:
			is = nil
		case *ast.IfStmt:
			is = el
		default:
			return g.errf(is, "binaryOp: result type chain ends with else")
		}
	}
	fmt.Fprintf(w, "/-- … and the kind of the type of the result (%s) -/\n", g.fset.Position(chain.Pos()))
	fmt.Fprintf(w, "def foldResultKind (isBoolOp isShift untyped1 : Bool) (k1 k2 : Nat) : Nat :=\n  %s %s\n", strings.Join(arms, " "), res)
	return nil
}

func genConstInt(repo string) (string, error) {
	g := &ciGen{fset: token.NewFileSet(), consts: map[string]ast.Expr{}, vars: map[string]ast.Expr{}}
	for _, name := range []string{"constant.go", "checker_util.go", "checker_scopes.go", "checker_expressions.go"} {
		f, err := parser.ParseFile(g.fset, filepath.Join(repo, "internal", "compiler", name), nil, 0)
		if err != nil {
			return "", err
		}
		g.files = append(g.files, f)
		for _, d := range f.Decls {
			gd, ok := d.(*ast.GenDecl)
			if !ok || (gd.Tok != token.CONST && gd.Tok != token.VAR) {
				continue
			}
			for _, sp := range gd.Specs {
				vs := sp.(*ast.ValueSpec)
				if len(vs.Names) != len(vs.Values) {
					continue
				}
				for i, n := range vs.Names {
					if gd.Tok == token.CONST {
						if vs.Type != nil {
							continue
						}
						g.consts[n.Name] = vs.Values[i]
					} else {
						g.vars[n.Name] = vs.Values[i]
					}
				}
			}
		}
	}
	w := &g.out
	fmt.Fprintf(w, "/-! Integer constant arithmetic of internal/compiler/constant.go (C02). -/\n")
	fmt.Fprintf(w, "namespace ScriggoV.Gen.ConstInt\n\n")
	fmt.Fprintf(w, "/-- reflect.Kind numbering of the integer kinds (reflect package of the Go toolchain that built the extractor) -/\n")
	for _, n := range []string{"Int", "Int8", "Int16", "Int32", "Int64", "Uint", "Uint8", "Uint16", "Uint32", "Uint64", "Uintptr"} {
		fmt.Fprintf(w, "def k%s : Nat := %d\n", n, uint(ciKinds[n]))
	}
	fmt.Fprintf(w, "/-- `strconv.IntSize` on amd64 (the only architecture modelled) -/\ndef intSize : Nat := 64\n\n")
	fmt.Fprintf(w, "inductive Op where\n")
	for _, o := range ciBinOps {
		fmt.Fprintf(w, "  | %s\n", o.lean)
	}
	fmt.Fprintf(w, "  deriving DecidableEq, Repr\n\ninductive UOp where\n  | plus | neg | xor\n  deriving DecidableEq, Repr\n\n")
	fmt.Fprintf(w, "/-- outcome of the int64 fast path: an int64 value, a boolean, \"the same operation by math/big\",\nthe two errors of the code, or a Go run-time panic (integer division by zero, index out of range) -/\n")
	fmt.Fprintf(w, "inductive FastResult where\n  | value (r : BitVec 64) | bool (b : Bool) | useBig | divZero | invalidOp | goPanic\n  deriving DecidableEq, Repr\n\n")
	fmt.Fprintf(w, "inductive Rep where\n  | ok | overflow | notInteger\n  deriving DecidableEq, Repr\n\n")
	fmt.Fprintf(w, "inductive BigMethod where\n  | Cmp | Add | Sub | Mul | Quo | Rem | And | Or | Xor | AndNot\n  deriving DecidableEq, Repr\n\n")
	fmt.Fprintf(w, "/-- implementation types of a numeric constant: int64Const, intConst, float64Const, floatConst (512-bit big.Float), ratConst -/\ninductive Impl where\n  | small | big | f64 | bigf | rat\n  deriving DecidableEq, Repr\n\n")
	fmt.Fprintf(w, "/-- primitive conversion steps between implementations; `i64ToF64` and `ratToBigFloat` can round -/\ninductive Step where\n  | i64ToBig | i64ToF64 | i64ToBigFloat | i64ToRat | bigToBigFloat | bigToRat | f64ToBigFloat | f64ToRat | ratToBigFloat\n  deriving DecidableEq, Repr\n\n")
	fmt.Fprintf(w, "structure BigOp where\n  method : BigMethod\n  checksOverflow : Bool\n  refusesZeroDivisor : Bool\n  deriving DecidableEq, Repr\n")
	for _, step := range []func() error{g.genIsSigned, g.genTables, g.genFastBinary, g.genFastUnary, g.genRepFast, g.genBig, g.genShiftGuard, g.genPromote, g.genFoldGlue} {
		if err := step(); err != nil {
			return "", err
		}
	}
	fmt.Fprintf(w, "\nend ScriggoV.Gen.ConstInt\n")
	return g.out.String(), nil
}
