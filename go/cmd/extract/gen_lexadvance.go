package main

// Generator "LexAdvance" (property C21): the position bookkeeping of the template layer of
// internal/compiler/lexer.go as a table of *segments*.
//
// The main loop of scan() (`LOOP: for p < len(l.src) { … }`), scanCodeBlock, scanTag and scanAttribute
// (a loop inside them: every path through one iteration, from a fresh origin) and the byte walks of
// lexComment, skipRawContent and CDATA sections are executed symbolically, path by path. Along a path the generator records
//
//	guard    what the conditions taken say about the bytes at fixed offsets from the p the
//	         iteration started with: `c == '\\'`, `l.src[p+1] == quote`, `isSpace(c)`,
//	         `p+1 < len(l.src)`; helper predicates whose body is one boolean expression over
//	         s[i] (isEndScript, isEndStyle, isMarkdownStartURL) and bytes.HasPrefix(l.src[p:], v)
//	         are inlined; conditions that say nothing about bytes are dropped (a weaker guard);
//	events   adv k (`p++`, `p += k`, `p = k` after the text was flushed, `return p+k`), col k
//	         (`l.column++`, `l.column += k`), newline (`l.newline()`).
//
// A segment ends where the iteration ends (`continue`, end of the body, `break LOOP`, `return`)
// or where the bookkeeping is handed to code that does it itself (scanTag, scanAttribute,
// scanCodeBlock, skipRawContent, lexShow/lexStatement(s)/lexComment, the CDATA byte walk).
// The Lean side (Model/Lexer/Advance.lean, Props/C21.lean) proves, for every segment, that under
// its guard the events move line and column exactly as Spec.Position.advance does over the
// bytes the segment consumed: every place where the lexer steps over a byte without looking
// at it needs a guard that pins the byte, or the theorem fails.
//
// `p += s` after `_, s := utf8.DecodeRune(l.src[p:])` with `l.column++` directly before or after it, and
// `p += size - 1` followed by `l.column++` and the loop's `p++`, are rune steps:
// listed apart with its guard (the obligation is that its first byte is not a newline).
// Every assignment to `quote` is listed with the guard of its right-hand side.
//
// Anything outside the recognised statement shapes is an error ("shape not recognised").
// Helpers are prefixed `la`.

import (
	"fmt"
	"go/ast"
	"go/token"
	"path/filepath"
	"sort"
	"strconv"
	"strings"
)

func init() {
	generators = append(generators, generator{name: "LexAdvance", run: genLexAdvance})
}

// laAtom: what one alternative says about a byte
type laAtom struct {
	kind string // byte | quote | pred
	b    byte
	name string
}

// laLit: `is`: the byte at off satisfies one of the alternatives (pos) / none of them (!pos);
// `inb`: p+off < len(l.src)
type laLit struct {
	kind string // is | inb
	off  int
	alts string // the alternatives, in Lean syntax (a string so that literals are comparable)
	pos  bool
}

func (a laAtom) lean() string {
	switch a.kind {
	case "byte":
		return fmt.Sprintf(".byte 0x%02x", a.b) // a Nat on the Lean side
	case "quote":
		return ".quote"
	}
	return ".pred ." + a.name
}

func laIs(off int, pos bool, atoms ...laAtom) laLit {
	p := make([]string, len(atoms))
	for i, a := range atoms {
		p[i] = a.lean()
	}
	return laLit{kind: "is", off: off, alts: strings.Join(p, ", "), pos: pos}
}

func (l laLit) lean() string {
	if l.kind == "inb" {
		return fmt.Sprintf(".inb %d", l.off)
	}
	return fmt.Sprintf(".is %d [%s] %v", l.off, l.alts, l.pos)
}

type laEv struct {
	kind string // adv | col | newline
	k    int
}

func (e laEv) lean() string {
	if e.kind == "newline" {
		return ".newline"
	}
	return fmt.Sprintf(".%s %d", e.kind, e.k)
}

type laState struct {
	d, base int
	abs     bool // offsets are also absolute indexes of l.src (the text before p was flushed, or p == 0)
	stale   bool // the text before p was emitted (l.src moved) and p not yet reassigned
	needCol bool // a rune step was taken: the next statement must be `l.column++`
	runeEnd bool // `p += size - 1` of a rune: the rest of the iteration must be `l.column++` and the loop's `p++`
	lineInc bool // `l.line++`: the next statement must be `l.column = 1`
	vars    map[string]int
	sizes   map[string]int
	guard   []laLit
	evs     []laEv
	where   []string
}

func (s laState) clone() laState {
	t := s
	t.vars = map[string]int{}
	for k, v := range s.vars {
		t.vars[k] = v
	}
	t.sizes = map[string]int{}
	for k, v := range s.sizes {
		t.sizes[k] = v
	}
	t.guard = append([]laLit(nil), s.guard...)
	t.evs = append([]laEv(nil), s.evs...)
	t.where = append([]string(nil), s.where...)
	return t
}

func (s laState) with(lits []laLit, label string) laState {
	t := s.clone()
	for _, l := range lits {
		dup := false
		for _, g := range t.guard {
			dup = dup || g == l
		}
		if !dup {
			t.guard = append(t.guard, l)
		}
	}
	if label != "" {
		t.where = append(t.where, label)
	}
	return t
}

func (s laState) clean() bool { return len(s.evs) == 0 && s.d == 0 && s.base == 0 }

type laSeg struct {
	name  string
	base  int
	guard []laLit
	evs   []laEv
	end   string
}

type laRune struct {
	name  string
	off   int
	guard []laLit
}

type laQuote struct {
	name  string
	rhs   string // "zero" | "dq" | "byte"
	off   int
	guard []laLit
}

type laGen struct {
	lxGen
	file    *ast.File
	fn      string
	segs    []laSeg
	runes   []laRune
	quotes  []laQuote
	helpers map[string]*ast.FuncDecl // one-expression byte-slice predicates
	bvars   map[string]string        // []byte("…") variables
	joined  map[string]bool
	next    ast.Stmt // the statement after the one being executed, in the same block
	pv      string   // the position variable of the code being executed: p, or the index of a byte walk
	err     error
}

// control flow of the enclosing constructs
type laCtl struct {
	brk  func(laState) // unlabelled break (innermost switch)
	next func(laState) // fallthrough: body of the next case
	cont func(laState) // continue of the innermost loop (nil: the main loop)
}

func (g *laGen) label(n ast.Node, text string) string {
	if len(text) > 28 {
		text = text[:28] + "…"
	}
	return fmt.Sprintf("L%d:%s", g.fset.Position(n.Pos()).Line, text)
}

func (g *laGen) fail(n ast.Node, format string, a ...any) {
	if g.err == nil {
		g.err = g.errf(n, format, a...)
	}
}

func (g *laGen) segment(s laState, end string) {
	if s.runeEnd {
		// what follows `p += size - 1` is the rune's own column and last byte
		// (a path that does anything else is listed as a segment: it passes only if its guard is contradictory)
		if len(s.evs) == 2 && (s.evs[0] == laEv{"col", 1} && s.evs[1] == laEv{"adv", 1} || s.evs[0] == laEv{"adv", 1} && s.evs[1] == laEv{"col", 1}) {
			return
		}
	}
	if len(s.evs) == 0 {
		return
	}
	g.segs = append(g.segs, laSeg{name: g.fn + "/" + strings.Join(s.where, "/"), base: s.base, guard: s.guard, evs: s.evs, end: end})
}

// handOver ends the segment: from here other code keeps line and column itself
func (g *laGen) handOver(s laState, to string) laState {
	g.segment(s, "hand-over:"+to)
	t := s.clone()
	t.evs = nil
	t.base = t.d
	return t
}

// newOrigin: p was given a value the generator knows nothing about
func laNewOrigin(s laState) laState {
	t := s.clone()
	t.d, t.base, t.abs = 0, 0, false
	t.vars, t.sizes = map[string]int{}, map[string]int{}
	t.guard, t.evs = nil, nil
	return t
}

// shift moves the origin to the current p (the text before p was emitted; l.src now starts at
// p): what is pending is settled first
func (g *laGen) shift(s laState) laState {
	t := g.handOver(s, "flush")
	var gd []laLit
	for _, l := range t.guard {
		if l.off >= t.d {
			l.off -= t.d
			gd = append(gd, l)
		}
	}
	t.guard = gd
	for k, v := range t.vars {
		if v >= t.d {
			t.vars[k] = v - t.d
		} else {
			delete(t.vars, k)
		}
	}
	t.sizes = map[string]int{}
	t.base, t.d = 0, 0
	t.abs = true
	return t
}

func laIsIdent(e ast.Expr, name string) bool {
	id, ok := e.(*ast.Ident)
	return ok && id.Name == name
}

func laIsSel(e ast.Expr, x, sel string) bool {
	s, ok := e.(*ast.SelectorExpr)
	return ok && laIsIdent(s.X, x) && s.Sel.Name == sel
}

func laIntLit(e ast.Expr) (int, bool) {
	if b, ok := e.(*ast.BasicLit); ok && b.Kind == token.INT {
		n, err := strconv.ParseInt(b.Value, 0, 64)
		return int(n), err == nil
	}
	return 0, false
}

func laIsIntLit(e ast.Expr) bool {
	_, ok := laIntLit(e)
	return ok
}

func laCharLit(e ast.Expr) (byte, bool) {
	if b, ok := e.(*ast.BasicLit); ok && b.Kind == token.CHAR {
		r, _, _, err := strconv.UnquoteChar(b.Value[1:len(b.Value)-1], '\'')
		if err == nil && r < 256 {
			return byte(r), true
		}
	}
	return 0, false
}

// pOffset: the offset denoted by an index expression over p: `p`, `p+K`, an integer literal
// when offsets are absolute. env maps the parameter of an inlined helper to its offset.
func (g *laGen) pOffset(e ast.Expr, s *laState) (int, bool) {
	if p, ok := e.(*ast.ParenExpr); ok {
		return g.pOffset(p.X, s)
	}
	if laIsIdent(e, g.pv) {
		return s.d, !s.stale
	}
	if n, ok := laIntLit(e); ok && s.abs {
		return n, true
	}
	if b, ok := e.(*ast.BinaryExpr); ok && b.Op == token.ADD {
		if n, ok := laIntLit(b.Y); ok {
			if o, ok := g.pOffset(b.X, s); ok {
				return o + n, true
			}
		}
	}
	return 0, false
}

// byteOffset: the offset of the byte an expression denotes: a bound variable, `l.src[…]`, or
// `v[i]` of an inlined helper's parameter
func (g *laGen) byteOffset(e ast.Expr, s *laState, param string, poff int) (int, bool) {
	if p, ok := e.(*ast.ParenExpr); ok {
		return g.byteOffset(p.X, s, param, poff)
	}
	if id, ok := e.(*ast.Ident); ok {
		o, ok := s.vars[id.Name]
		return o, ok
	}
	if ix, ok := e.(*ast.IndexExpr); ok {
		if param != "" && laIsIdent(ix.X, param) {
			if n, ok := laIntLit(ix.Index); ok {
				return poff + n, true
			}
			return 0, false
		}
		if laIsSel(ix.X, "l", "src") {
			return g.pOffset(ix.Index, s)
		}
	}
	return 0, false
}

// sliceFromP: `l.src[p+K:]` → offset
func (g *laGen) sliceFromP(e ast.Expr, s *laState, param string, poff int) (int, bool) {
	if param != "" && laIsIdent(e, param) {
		return poff, true
	}
	sl, ok := e.(*ast.SliceExpr)
	if !ok || sl.High != nil || sl.Max != nil || sl.Low == nil || !laIsSel(sl.X, "l", "src") {
		return 0, false
	}
	return g.pOffset(sl.Low, s)
}

type laCond struct{ T, F [][]laLit }

var laNoInfo = laCond{T: [][]laLit{nil}, F: [][]laLit{nil}}

func laCross(a, b [][]laLit) [][]laLit {
	var out [][]laLit
	for _, x := range a {
		for _, y := range b {
			out = append(out, append(append([]laLit(nil), x...), y...))
		}
	}
	return out
}

var laPreds = map[string]bool{"isSpace": true, "isStartChar": true, "isASCIISpace": true, "isAlpha": true}

// cond translates a condition into the ways it can be true and the ways it can be false, as
// conjunctions of literals about bytes. Information that is not about bytes, and the negation of
// a conjunction, are dropped (an empty conjunction): guards only get weaker.
func (g *laGen) cond(e ast.Expr, s *laState, param string, poff int) laCond {
	switch x := e.(type) {
	case *ast.ParenExpr:
		return g.cond(x.X, s, param, poff)
	case *ast.UnaryExpr:
		if x.Op == token.NOT {
			c := g.cond(x.X, s, param, poff)
			return laCond{T: c.F, F: c.T}
		}
	case *ast.BinaryExpr:
		switch x.Op {
		case token.LAND:
			a, b := g.cond(x.X, s, param, poff), g.cond(x.Y, s, param, poff)
			return laCond{T: laCross(a.T, b.T), F: [][]laLit{nil}}
		case token.LOR:
			a, b := g.cond(x.X, s, param, poff), g.cond(x.Y, s, param, poff)
			// alternatives about the same byte are one literal
			if len(a.T) == 1 && len(b.T) == 1 && len(a.T[0]) == 1 && len(b.T[0]) == 1 {
				l, r := a.T[0][0], b.T[0][0]
				if l.kind == "is" && r.kind == "is" && l.off == r.off && l.pos && r.pos {
					m := laLit{kind: "is", off: l.off, alts: l.alts + ", " + r.alts, pos: true}
					n := m
					n.pos = false
					return laCond{T: [][]laLit{{m}}, F: [][]laLit{{n}}}
				}
			}
			return laCond{T: append(append([][]laLit(nil), a.T...), b.T...), F: laCross(a.F, b.F)}
		case token.EQL, token.NEQ:
			lit, ok := g.byteEq(x.X, x.Y, s, param, poff)
			if !ok {
				lit, ok = g.byteEq(x.Y, x.X, s, param, poff)
			}
			if ok {
				neg := lit
				neg.pos = false
				if x.Op == token.NEQ {
					return laCond{T: [][]laLit{{neg}}, F: [][]laLit{{lit}}}
				}
				return laCond{T: [][]laLit{{lit}}, F: [][]laLit{{neg}}}
			}
		case token.LSS, token.GTR, token.GEQ, token.LEQ:
			if o, ok := g.inBounds(x, s, param, poff); ok {
				return laCond{T: [][]laLit{{{kind: "inb", off: o, pos: true}}}, F: [][]laLit{nil}}
			}
			// `c < N`, `c <= N`, `c >= N`, `c > N` for a byte of the source
			if o, ok := g.byteOffset(x.X, s, param, poff); ok {
				if n, ok := g.constInt(x.Y); ok {
					bound, pos := n, true // c < bound
					switch x.Op {
					case token.LEQ:
						bound = n + 1
					case token.GEQ:
						pos = false
					case token.GTR:
						bound, pos = n+1, false
					}
					lt := laLit{kind: "is", off: o, alts: fmt.Sprintf(".lt %d", bound), pos: pos}
					ge := lt
					ge.pos = !pos
					return laCond{T: [][]laLit{{lt}}, F: [][]laLit{{ge}}}
				}
			}
		}
	case *ast.CallExpr:
		if id, ok := x.Fun.(*ast.Ident); ok && len(x.Args) == 1 {
			if laPreds[id.Name] {
				if o, ok := g.byteOffset(x.Args[0], s, param, poff); ok {
					a := laAtom{kind: "pred", name: id.Name}
					return laCond{T: [][]laLit{{laIs(o, true, a)}}, F: [][]laLit{{laIs(o, false, a)}}}
				}
				return laNoInfo
			}
			if h := g.helpers[id.Name]; h != nil {
				if o, ok := g.sliceFromP(x.Args[0], s, param, poff); ok {
					body := h.Body.List[0].(*ast.ReturnStmt).Results[0]
					return g.cond(body, s, h.Type.Params.List[0].Names[0].Name, o)
				}
				return laNoInfo
			}
		}
		// bytes.HasPrefix(l.src[p:], v)
		if sel, ok := x.Fun.(*ast.SelectorExpr); ok && laIsIdent(sel.X, "bytes") && sel.Sel.Name == "HasPrefix" && len(x.Args) == 2 {
			if v, ok := x.Args[1].(*ast.Ident); ok {
				if val, ok := g.bvars[v.Name]; ok {
					if o, ok := g.sliceFromP(x.Args[0], s, param, poff); ok {
						var conj []laLit
						for i := 0; i < len(val); i++ {
							conj = append(conj, laIs(o+i, true, laAtom{kind: "byte", b: val[i]}))
						}
						return laCond{T: [][]laLit{conj}, F: [][]laLit{nil}}
					}
				}
			}
		}
	}
	return laNoInfo
}

// constInt: an integer literal, a character literal or utf8.RuneSelf
func (g *laGen) constInt(e ast.Expr) (int, bool) {
	if n, ok := laIntLit(e); ok {
		return n, true
	}
	if b, ok := laCharLit(e); ok {
		return int(b), true
	}
	if g.src(e) == "utf8.RuneSelf" {
		return 0x80, true
	}
	return 0, false
}

// byteEq: `x == y` where x denotes a byte of the source and y a character literal or `quote`
func (g *laGen) byteEq(x, y ast.Expr, s *laState, param string, poff int) (laLit, bool) {
	o, ok := g.byteOffset(x, s, param, poff)
	if !ok {
		return laLit{}, false
	}
	if b, ok := laCharLit(y); ok {
		return laIs(o, true, laAtom{kind: "byte", b: b}), true
	}
	if laIsIdent(y, "quote") {
		return laIs(o, true, laAtom{kind: "quote"}), true
	}
	return laLit{}, false
}

// inBounds: `p+K < len(l.src)`, `len(l.src) > K` (absolute offsets), `len(s) >= N` in a helper
func (g *laGen) inBounds(x *ast.BinaryExpr, s *laState, param string, poff int) (int, bool) {
	lenOf := func(e ast.Expr) bool {
		c, ok := e.(*ast.CallExpr)
		if !ok || !laIsIdent(c.Fun, "len") || len(c.Args) != 1 {
			return false
		}
		if param != "" {
			return laIsIdent(c.Args[0], param)
		}
		return laIsSel(c.Args[0], "l", "src")
	}
	off := func(e ast.Expr) (int, bool) {
		if param != "" {
			n, ok := laIntLit(e)
			return poff + n, ok
		}
		return g.pOffset(e, s)
	}
	switch {
	case x.Op == token.LSS && lenOf(x.Y): // K < len
		return off(x.X)
	case x.Op == token.GTR && lenOf(x.X): // len > K
		return off(x.Y)
	case x.Op == token.GEQ && lenOf(x.X): // len >= N
		if o, ok := off(x.Y); ok && o > 0 {
			return o - 1, true
		}
	}
	return 0, false
}

// relevant: does the node touch p, l.column, l.line, move l.src, hand the bookkeeping over, assign
// quote, or leave the enclosing construct
func (g *laGen) relevant(n ast.Node) bool {
	found := false
	var stack []ast.Node
	ast.Inspect(n, func(m ast.Node) bool {
		if m == nil {
			stack = stack[:len(stack)-1]
			return true
		}
		breakable := 0
		for _, a := range stack {
			switch a.(type) {
			case *ast.SwitchStmt, *ast.ForStmt, *ast.RangeStmt, *ast.TypeSwitchStmt, *ast.SelectStmt:
				breakable++
			}
		}
		switch x := m.(type) {
		case *ast.BranchStmt:
			if !(x.Tok == token.BREAK && x.Label == nil && breakable > 0) {
				found = true
			}
		case *ast.ReturnStmt:
			found = true
		case *ast.IncDecStmt:
			if g.isBook(x.X) {
				found = true
			}
		case *ast.AssignStmt:
			for _, l := range x.Lhs {
				if g.isBook(l) || laIsIdent(l, "quote") || laIsSel(l, "l", "src") {
					found = true
				}
			}
		case *ast.CallExpr:
			if name, ok := laLCall(x); ok {
				if name == "newline" || laHandOver[name] || name == "lexCode" || g.isFlush(x) {
					found = true
				}
			}
		}
		stack = append(stack, m)
		return true
	})
	return found
}

// isFlush: `l.emitAtLineColumn(…, p)`: the token takes the p bytes read so far, l.src moves to p
func (g *laGen) isFlush(c *ast.CallExpr) bool {
	name, ok := laLCall(c)
	return ok && (name == "emitAtLineColumn" || name == "emit") && len(c.Args) > 0 && laIsIdent(c.Args[len(c.Args)-1], g.pv)
}

// keepsLineCol: the node changes l.column or l.line or calls l.newline()
func (g *laGen) keepsLineCol(n ast.Node) bool {
	found := false
	ast.Inspect(n, func(m ast.Node) bool {
		switch x := m.(type) {
		case *ast.SelectorExpr:
			if laIsSel(x, "l", "column") || laIsSel(x, "l", "line") || laIsSel(x, "l", "newline") {
				found = true
			}
		}
		return !found
	})
	return found
}

func (g *laGen) isBook(e ast.Expr) bool {
	return laIsIdent(e, g.pv) || laIsSel(e, "l", "column") || laIsSel(e, "l", "line")
}

var laHandOver = map[string]bool{"scanTag": true, "scanAttribute": true, "scanCodeBlock": true, "skipRawContent": true,
	"lexShow": true, "lexStatement": true, "lexStatements": true, "lexComment": true}

// lCall: `l.name(…)`
func laLCall(e ast.Expr) (string, bool) {
	c, ok := e.(*ast.CallExpr)
	if !ok {
		return "", false
	}
	sel, ok := c.Fun.(*ast.SelectorExpr)
	if !ok || !laIsIdent(sel.X, "l") {
		return "", false
	}
	return sel.Sel.Name, true
}

// block runs the statements; k receives every state that falls off the end
func (g *laGen) block(stmts []ast.Stmt, s laState, ctl laCtl, top bool, k func(laState)) {
	if g.err != nil {
		return
	}
	if len(stmts) == 0 {
		k(s)
		return
	}
	if top && s.clean() {
		// a join point of the loop body: states with nothing pending are merged (their guards dropped)
		var vs []string
		for v, o := range s.vars {
			vs = append(vs, fmt.Sprintf("%s@%d", v, o))
		}
		sort.Strings(vs)
		key := fmt.Sprint(stmts[0].Pos(), vs, s.abs, s.stale)
		if g.joined[key] {
			return
		}
		g.joined[key] = true
		t := s.clone()
		t.guard = nil
		for _, l := range s.guard {
			if l.kind == "inb" && l.off == 0 {
				t.guard = append(t.guard, l)
			}
		}
		t.where = nil
		s = t
	}
	g.next = nil
	if len(stmts) > 1 {
		g.next = stmts[1]
	}
	g.stmt(stmts[0], s, ctl, func(t laState) { g.block(stmts[1:], t, ctl, top, k) })
}

func (g *laGen) stmt(st ast.Stmt, s laState, ctl laCtl, k func(laState)) {
	if g.err != nil {
		return
	}
	if s.lineInc {
		if x, ok := st.(*ast.AssignStmt); ok && len(x.Lhs) == 1 && laIsSel(x.Lhs[0], "l", "column") && x.Tok == token.ASSIGN && g.src(x.Rhs[0]) == "1" {
			t := s.clone()
			t.lineInc = false
			t.evs = append(t.evs, laEv{"newline", 0})
			k(t)
			return
		}
		g.fail(st, "`l.line++` without `l.column = 1` directly after it")
		return
	}
	if s.needCol {
		if x, ok := st.(*ast.IncDecStmt); ok && laIsSel(x.X, "l", "column") && x.Tok == token.INC {
			t := s.clone()
			t.needCol = false
			k(t)
			return
		}
		g.fail(st, "`p += size` of a rune without `l.column++` directly after it")
		return
	}
	switch x := st.(type) {
	case *ast.EmptyStmt, *ast.DeclStmt:
		k(s)
	case *ast.BlockStmt:
		g.block(x.List, s, ctl, false, k)
	case *ast.IncDecStmt:
		switch {
		case laIsIdent(x.X, g.pv) && x.Tok == token.INC:
			t := s.clone()
			t.d++
			t.evs = append(t.evs, laEv{"adv", 1})
			k(t)
		case laIsSel(x.X, "l", "column") && x.Tok == token.INC:
			t := s.clone()
			t.evs = append(t.evs, laEv{"col", 1})
			k(t)
		case laIsSel(x.X, "l", "line") && x.Tok == token.INC:
			t := s.clone()
			t.lineInc = true
			k(t)
		default:
			if g.isBook(x.X) {
				g.fail(x, "bookkeeping statement")
				return
			}
			k(s)
		}
	case *ast.ExprStmt:
		if c, ok := x.X.(*ast.CallExpr); ok && g.isFlush(c) {
			t := g.shift(s)
			t.stale = true
			k(t)
			return
		}
		if name, ok := laLCall(x.X); ok {
			switch {
			case name == "newline":
				t := s.clone()
				t.evs = append(t.evs, laEv{"newline", 0})
				k(t)
				return
			case laHandOver[name]:
				k(g.handOver(s, name))
				return
			}
		}
		k(s)
	case *ast.AssignStmt:
		g.assign(x, s, k)
	case *ast.IfStmt:
		g.ifStmt(x, s, ctl, k)
	case *ast.SwitchStmt:
		g.switchStmt(x, s, ctl, k)
	case *ast.ForStmt:
		g.forStmt(x, s, k)
	case *ast.BranchStmt:
		switch {
		case x.Tok == token.CONTINUE && x.Label == nil && ctl.cont != nil:
			ctl.cont(s)
		case x.Tok == token.CONTINUE && (x.Label == nil || x.Label.Name == "LOOP"):
			g.segment(s, "continue")
		case x.Tok == token.BREAK && x.Label != nil && x.Label.Name == "LOOP":
			g.segment(s, "break-loop")
		case x.Tok == token.BREAK && x.Label == nil && ctl.brk != nil:
			ctl.brk(s)
		case x.Tok == token.FALLTHROUGH && ctl.next != nil:
			ctl.next(s)
		default:
			g.fail(x, "branch statement")
		}
	case *ast.ReturnStmt:
		// `return p + K, ctx` (scanCodeBlock), `return name, p` (scanTag, scanAttribute): the position is the result that is p
		for _, res := range x.Results {
			t := s.clone()
			if o, ok := g.pOffset(res, &t); ok && o >= t.d && !laIsIntLit(res) {
				if o > t.d {
					t.evs = append(t.evs, laEv{"adv", o - t.d})
					t.d = o
				}
				g.segment(t, "return")
				return
			}
		}
		g.fail(x, "return")
	default:
		g.fail(st, "statement")
	}
}

// loopVar: the position variable of a loop: the variable of the post statement `v++`, or p for
// `for p < len(l.src)`
func (g *laGen) loopVar(x *ast.ForStmt) (string, bool) {
	if x.Post != nil {
		if inc, ok := x.Post.(*ast.IncDecStmt); ok && inc.Tok == token.INC {
			if id, ok := inc.X.(*ast.Ident); ok {
				return id.Name, true
			}
		}
		return "", false
	}
	if x.Cond != nil && g.src(x.Cond) == g.pv+" < len(l.src)" && x.Init == nil {
		return g.pv, true
	}
	return "", false
}

// forStmt: what is pending is settled; every path through one iteration is a segment of its own (its
// origin is the position variable at the start of the iteration); after the loop nothing is known of p
func (g *laGen) forStmt(x *ast.ForStmt, s laState, k func(laState)) {
	if !g.relevant(x.Body) {
		k(s)
		return
	}
	pv, ok := g.loopVar(x)
	if !ok {
		g.fail(x, "loop")
		return
	}
	t := g.handOver(s, "loop")
	saved := g.pv
	g.pv = pv
	it := laState{vars: map[string]int{}, sizes: map[string]int{}, where: append(append([]string(nil), s.where...), g.label(x, "for"))}
	if x.Cond != nil && g.src(x.Cond) == pv+" < len(l.src)" {
		it.guard = []laLit{{kind: "inb", off: 0, pos: true}}
	}
	end := func(u laState) {
		if x.Post != nil {
			u = u.clone()
			u.d++
			u.evs = append(u.evs, laEv{"adv", 1})
		}
		g.segment(u, "next-iteration")
	}
	g.block(x.Body.List, it, laCtl{brk: func(u laState) { g.segment(u, "break") }, cont: end}, false, end)
	g.pv = saved
	if pv == saved {
		t = laNewOrigin(t)
		t.where = append(append([]string(nil), s.where...), g.label(x, "after-for"))
	}
	k(t)
}

func (g *laGen) assign(x *ast.AssignStmt, s laState, k func(laState)) {
	touches := false
	for _, l := range x.Lhs {
		touches = touches || g.isBook(l)
	}
	// calls that keep line and column themselves
	if len(x.Rhs) == 1 {
		if name, ok := laLCall(x.Rhs[0]); ok && laHandOver[name] {
			t := g.handOver(s, name)
			for _, l := range x.Lhs {
				if laIsIdent(l, g.pv) {
					t = laNewOrigin(t)
				}
			}
			k(t)
			return
		}
	}
	if len(x.Lhs) == 1 && len(x.Rhs) == 1 {
		lhs, rhs := x.Lhs[0], x.Rhs[0]
		switch {
		case laIsIdent(lhs, g.pv) && x.Tok == token.ADD_ASSIGN:
			if n, ok := laIntLit(rhs); ok {
				t := s.clone()
				t.d += n
				t.evs = append(t.evs, laEv{"adv", n})
				k(t)
				return
			}
			if id, ok := rhs.(*ast.Ident); ok {
				if o, ok := s.sizes[id.Name]; ok && o == s.d {
					// a rune step: `l.column++` directly before it or directly after it
					colAfter := false
					if inc, ok := g.next.(*ast.IncDecStmt); ok && laIsSel(inc.X, "l", "column") && inc.Tok == token.INC {
						colAfter = true
					}
					colBefore := !colAfter && len(s.evs) > 0 && s.evs[len(s.evs)-1] == laEv{"col", 1}
					u := s.clone()
					if colBefore {
						u.evs = u.evs[:len(u.evs)-1]
					}
					t := g.handOver(u, "rune")
					g.runes = append(g.runes, laRune{name: g.fn + "/" + strings.Join(s.where, "/"), off: s.d, guard: s.guard})
					t = laNewOrigin(t)
					t.where = append(append([]string(nil), s.where...), "after-rune")
					t.needCol = !colBefore
					k(t)
					return
				}
			}
			// `p += size - 1`: all but the last byte of a rune; `l.column++` and the loop's `p++` follow
			if b, ok := rhs.(*ast.BinaryExpr); ok && b.Op == token.SUB && g.src(b.Y) == "1" {
				if id, ok := b.X.(*ast.Ident); ok {
					if o, ok := s.sizes[id.Name]; ok && o == s.d && len(s.evs) == 0 {
						g.runes = append(g.runes, laRune{name: g.fn + "/" + strings.Join(s.where, "/"), off: s.d, guard: s.guard})
						t := s.clone()
						t.base = t.d
						t.where = append(t.where, "in-rune")
						t.runeEnd = true
						k(t)
						return
					}
				}
			}
			g.fail(x, "advance of p")
			return
		case laIsIdent(lhs, g.pv) && x.Tok == token.ASSIGN:
			if n, ok := laIntLit(rhs); ok {
				// `p = 0` after the text was emitted (or with p == 0); `p = K`: the same and K bytes further
				if !s.stale && !(s.abs && s.d == 0) {
					g.fail(x, "p = %d without the text before p being emitted", n)
					return
				}
				t := s.clone()
				t.stale = false
				if n > 0 {
					t.d = n
					t.evs = append(t.evs, laEv{"adv", n})
				}
				k(t)
				return
			}
			if laIsIdent(rhs, "next") {
				k(laNewOrigin(g.handOver(s, "next")))
				return
			}
			g.fail(x, "assignment to p")
			return
		case laIsSel(lhs, "l", "column") && x.Tok == token.ADD_ASSIGN:
			if n, ok := laIntLit(rhs); ok {
				t := s.clone()
				t.evs = append(t.evs, laEv{"col", n})
				k(t)
				return
			}
			if laIsIdent(rhs, g.pv) && s.abs {
				t := s.clone()
				t.evs = append(t.evs, laEv{"col", s.d})
				k(t)
				return
			}
			g.fail(x, "column advance")
			return
		case laIsSel(lhs, "l", "src") && x.Tok == token.ASSIGN && g.src(rhs) == "l.src[p:]":
			k(g.shift(s))
			return
		case laIsIdent(lhs, "quote") && x.Tok == token.ASSIGN:
			q := laQuote{name: g.fn + "/" + strings.Join(s.where, "/"), guard: s.guard}
			if n, ok := laIntLit(rhs); ok && n == 0 {
				q.rhs = "zero"
			} else if b, ok := laCharLit(rhs); ok && b == '"' {
				q.rhs = "dq"
			} else if o, ok := g.byteOffset(rhs, &s, "", 0); ok {
				q.rhs, q.off = "byte", o
			} else {
				g.fail(x, "assignment to quote")
				return
			}
			g.quotes = append(g.quotes, q)
			k(s)
			return
		case (x.Tok == token.DEFINE || x.Tok == token.ASSIGN) && !touches:
			// `c := l.src[p]`
			if id, ok := lhs.(*ast.Ident); ok {
				t := s.clone()
				if o, ok := g.byteOffset(rhs, &t, "", 0); ok {
					if _, isIx := rhs.(*ast.IndexExpr); isIx {
						t.vars[id.Name] = o
						k(t)
						return
					}
				}
				delete(t.vars, id.Name)
				delete(t.sizes, id.Name)
				k(t)
				return
			}
		}
	}
	// `_, s := utf8.DecodeRune(l.src[p:])`
	if len(x.Lhs) == 2 && len(x.Rhs) == 1 && !touches {
		if c, ok := x.Rhs[0].(*ast.CallExpr); ok && g.src(c.Fun) == "utf8.DecodeRune" && len(c.Args) == 1 {
			if id, ok := x.Lhs[1].(*ast.Ident); ok {
				t := s.clone()
				if o, ok := g.sliceFromP(c.Args[0], &t, "", 0); ok {
					t.sizes[id.Name] = o
				}
				k(t)
				return
			}
		}
	}
	if touches {
		g.fail(x, "bookkeeping assignment")
		return
	}
	t := s.clone()
	for _, l := range x.Lhs {
		if id, ok := l.(*ast.Ident); ok {
			delete(t.vars, id.Name)
			delete(t.sizes, id.Name)
		}
	}
	k(t)
}

func (g *laGen) ifStmt(x *ast.IfStmt, s laState, ctl laCtl, k func(laState)) {
	if !g.relevant(x) {
		k(s)
		return
	}
	run := func(s laState) {
		label := g.label(x, "if "+g.src(x.Cond))
		// `p > 0` false: p == 0, offsets are absolute
		pZero := g.src(x.Cond) == "p > 0"
		c := g.cond(x.Cond, &s, "", 0)
		for _, conj := range c.T {
			g.block(x.Body.List, s.with(conj, label), ctl, false, k)
		}
		for _, conj := range c.F {
			t := s.with(conj, "")
			if pZero && t.d == 0 {
				t.abs = true
			}
			switch e := x.Else.(type) {
			case nil:
				k(t)
			case *ast.BlockStmt:
				t.where = append(t.where, g.label(e, "else"))
				g.block(e.List, t, ctl, false, k)
			case *ast.IfStmt:
				g.ifStmt(e, t, ctl, k)
			}
		}
	}
	if x.Init != nil {
		// inits are bindings (scoped to the statement) or hand-overs
		if a, ok := x.Init.(*ast.AssignStmt); ok && a.Tok == token.DEFINE && len(a.Lhs) == 1 {
			if id, ok := a.Lhs[0].(*ast.Ident); ok {
				old, had := s.vars[id.Name]
				oldD := s.d
				k0 := k
				k = func(t laState) {
					u := t.clone()
					if had && !u.stale && u.d >= oldD && u.base <= old {
						u.vars[id.Name] = old
					} else {
						delete(u.vars, id.Name)
					}
					k0(u)
				}
			}
		}
		g.stmt(x.Init, s, ctl, run)
		return
	}
	run(s)
}

func (g *laGen) switchStmt(x *ast.SwitchStmt, s laState, ctl laCtl, k func(laState)) {
	if !g.relevant(x) {
		k(s)
		return
	}
	if x.Init != nil || x.Tag == nil {
		g.fail(x, "switch")
		return
	}
	tag := g.src(x.Tag)
	var clauses []*ast.CaseClause
	for _, c := range x.Body.List {
		clauses = append(clauses, c.(*ast.CaseClause))
	}
	// literal for `tag == value`
	lit := func(v ast.Expr, s *laState) (laLit, bool) {
		return g.byteEq(x.Tag, v, s, "", 0)
	}
	var body func(i int, s laState)
	body = func(i int, s laState) {
		inner := laCtl{brk: k}
		if i+1 < len(clauses) {
			inner.next = func(t laState) { body(i+1, t) }
		}
		g.block(clauses[i].Body, s, inner, false, k)
	}
	var none []laLit // the negations of the values met so far (byte switches)
	hasDefault := false
	for i, c := range clauses {
		if c.List == nil {
			hasDefault = true
			t := s.with(none, "default")
			body(i, t)
			continue
		}
		for _, v := range c.List {
			label := g.label(c, "case "+tag+"=="+g.src(v))
			if l, ok := lit(v, &s); ok {
				body(i, s.with(append(append([]laLit(nil), none...), l), label))
			} else {
				body(i, s.with(nil, label))
			}
		}
		for _, v := range c.List {
			if l, ok := lit(v, &s); ok {
				l.pos = false
				none = append(none, l)
			}
		}
	}
	if !hasDefault {
		k(s.with(none, ""))
	}
}

func genLexAdvance(repo string) (string, error) {
	g := &laGen{helpers: map[string]*ast.FuncDecl{}, bvars: map[string]string{}, joined: map[string]bool{}}
	g.fset = token.NewFileSet()
	f, err := g.parse(filepath.Join(repo, "internal/compiler/lexer.go"))
	if err != nil {
		return "", err
	}
	g.file = f
	// helpers: `func name(s []byte) bool { return <expr> }`; variables `var v = []byte("…")`
	for _, d := range f.Decls {
		switch x := d.(type) {
		case *ast.FuncDecl:
			if x.Recv == nil && x.Body != nil && len(x.Body.List) == 1 && len(x.Type.Params.List) == 1 && len(x.Type.Params.List[0].Names) == 1 &&
				g.src(x.Type.Params.List[0].Type) == "[]byte" && x.Type.Results != nil && g.src(x.Type.Results.List[0].Type) == "bool" {
				if r, ok := x.Body.List[0].(*ast.ReturnStmt); ok && len(r.Results) == 1 {
					g.helpers[x.Name.Name] = x
				}
			}
		case *ast.GenDecl:
			if x.Tok != token.VAR {
				continue
			}
			for _, sp := range x.Specs {
				vs := sp.(*ast.ValueSpec)
				for i, n := range vs.Names {
					if i < len(vs.Values) {
						if c, ok := vs.Values[i].(*ast.CallExpr); ok && g.src(c.Fun) == "[]byte" && len(c.Args) == 1 {
							if b, ok := c.Args[0].(*ast.BasicLit); ok && b.Kind == token.STRING {
								if v, err := strconv.Unquote(b.Value); err == nil {
									g.bvars[n.Name] = v
								}
							}
						}
					}
				}
			}
		}
	}
	// ---- scan: the LOOP
	scan, err := g.funcDecl(f, "lexer", "scan")
	if err != nil {
		return "", err
	}
	var loop *ast.ForStmt
	ast.Inspect(scan, func(n ast.Node) bool {
		if ls, ok := n.(*ast.LabeledStmt); ok && ls.Label.Name == "LOOP" {
			loop, _ = ls.Stmt.(*ast.ForStmt)
		}
		return loop == nil
	})
	if loop == nil || g.src(loop.Cond) != "p < len(l.src)" || loop.Init != nil || loop.Post != nil {
		return "", fmt.Errorf("shape not recognised: scan has no `LOOP: for p < len(l.src)`")
	}
	g.fn, g.pv = "scan", "p"
	start := laState{vars: map[string]int{}, sizes: map[string]int{}, guard: []laLit{{kind: "inb", off: 0, pos: true}}}
	g.block(loop.Body.List, start, laCtl{}, true, func(s laState) { g.segment(s, "end-of-body") })
	if g.err != nil {
		return "", g.err
	}
	// ---- scanCodeBlock
	scb, err := g.funcDecl(f, "lexer", "scanCodeBlock")
	if err != nil {
		return "", err
	}
	g.fn = "scanCodeBlock"
	g.joined = map[string]bool{}
	g.block(scb.Body.List, laState{vars: map[string]int{}, sizes: map[string]int{}}, laCtl{}, false, func(s laState) { g.segment(s, "end-of-body") })
	if g.err != nil {
		return "", g.err
	}
	// ---- scanTag, scanAttribute: the whole function; lexComment, skipRawContent: their byte walks
	for _, name := range []string{"scanTag", "scanAttribute"} {
		fd, err := g.funcDecl(f, "lexer", name)
		if err != nil {
			return "", err
		}
		g.fn, g.pv = name, "p"
		g.block(fd.Body.List, laState{vars: map[string]int{}, sizes: map[string]int{}}, laCtl{}, false, func(s laState) { g.segment(s, "end-of-body") })
		if g.err != nil {
			return "", g.err
		}
	}
	for _, name := range []string{"lexComment", "skipRawContent"} {
		fd, err := g.funcDecl(f, "lexer", name)
		if err != nil {
			return "", err
		}
		g.fn, g.pv = name, "p"
		walks := 0
		ast.Inspect(fd.Body, func(n ast.Node) bool {
			if fs, ok := n.(*ast.ForStmt); ok && g.keepsLineCol(fs.Body) && g.err == nil {
				walks++
				g.forStmt(fs, laState{vars: map[string]int{}, sizes: map[string]int{}}, func(laState) {})
				return false
			}
			return true
		})
		if g.err != nil {
			return "", g.err
		}
		if walks != 1 {
			return "", fmt.Errorf("shape not recognised: %s has %d loops that keep line and column, expected 1", name, walks)
		}
	}
	if len(g.segs) < 20 {
		return "", fmt.Errorf("shape not recognised: only %d segments found", len(g.segs))
	}

	// ---- print
	sort.SliceStable(g.segs, func(i, j int) bool { return g.segs[i].name < g.segs[j].name })
	lits := func(ls []laLit) string {
		p := make([]string, len(ls))
		for i, l := range ls {
			p[i] = l.lean()
		}
		return "[" + strings.Join(p, ", ") + "]"
	}
	var b strings.Builder
	b.WriteString("import ScriggoV.Model.Lexer.Advance\n")
	b.WriteString("/-! Position bookkeeping of the template layer of lexer.go (scan's main loop, scanCodeBlock) as segments:\n")
	b.WriteString("guard on the bytes, events on p / l.column / l.line. See go/cmd/extract/gen_lexadvance.go. -/\n")
	b.WriteString("namespace ScriggoV.Gen.LexAdvance\nopen ScriggoV.Lexer.Advance\n\n")
	// segments with the same content are listed once (the name of the first)
	seen := map[string]bool{}
	var rows []string
	for _, s := range g.segs {
		evs := make([]string, len(s.evs))
		for i, e := range s.evs {
			evs[i] = e.lean()
		}
		body := fmt.Sprintf("base := %d, guard := %s, evs := [%s], handOver := %v", s.base, lits(s.guard), strings.Join(evs, ", "), strings.HasPrefix(s.end, "hand-over"))
		if seen[body] {
			continue
		}
		seen[body] = true
		rows = append(rows, fmt.Sprintf("  { name := %s, %s }", strconv.Quote(s.name+" -> "+s.end), body))
	}
	fmt.Fprintf(&b, "def segs : List Seg := [\n%s\n]\n\n", strings.Join(rows, ",\n"))
	rows = nil
	seen = map[string]bool{}
	for _, r := range g.runes {
		body := fmt.Sprintf("off := %d, guard := %s", r.off, lits(r.guard))
		if !seen[body] {
			seen[body] = true
			rows = append(rows, fmt.Sprintf("  { name := %s, %s }", strconv.Quote(r.name), body))
		}
	}
	fmt.Fprintf(&b, "def runeSteps : List RuneStep := [\n%s\n]\n\n", strings.Join(rows, ",\n"))
	rows = nil
	seen = map[string]bool{}
	for _, q := range g.quotes {
		body := fmt.Sprintf("rhs := .%s, off := %d, guard := %s", q.rhs, q.off, lits(q.guard))
		if !seen[body] {
			seen[body] = true
			rows = append(rows, fmt.Sprintf("  { name := %s, %s }", strconv.Quote(q.name), body))
		}
	}
	fmt.Fprintf(&b, "def quoteAssigns : List QuoteAssign := [\n%s\n]\n\n", strings.Join(rows, ",\n"))
	b.WriteString("end ScriggoV.Gen.LexAdvance\n")
	return b.String(), nil
}
