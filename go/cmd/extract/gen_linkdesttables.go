package main

// Generator "LinkDestTables" (property C29): regenerates from /repo/cmd/scriggo/mdescape.go
// the byte set of isMarkdownEscapable (`switch c { case …: return true }; return false`).
//
// markdownURLEscape, markdownUnescape (mdescape.go), applyReplacements, parseDestination,
// parseTitle and findLabelEnd (linkdestination.go) are hand-modelled in Model/LinkDest.lean;
// their source text is pinned by a hash here, so that any edit is reported as "shape not
// recognised" and the model is re-read. Uses the helpers of gen_mdtables.go.

import (
	"fmt"
	"go/ast"
	"path/filepath"
	"strings"
)

func init() {
	generators = append(generators, generator{name: "LinkDestTables", run: genLinkDestTables})
}

var ldPinnedEscape = map[string]string{
	"markdownURLEscape": "55d6d96caf5942bb",
	"markdownUnescape":  "aa4081edb2e81669",
}

var ldPinnedLink = map[string]string{
	"method:applyReplacements": "348e8eb62d907387",
	"parseDestination":         "07266bb24bf4e281",
	"parseTitle":               "a70668ea662c8a86",
	"findLabelEnd":             "f7649ae837f73bf2",
}

func genLinkDestTables(repo string) (string, error) {
	g, err := mdLoad(filepath.Join(repo, "cmd", "scriggo", "mdescape.go"))
	if err != nil {
		return "", err
	}
	fn := g.funcs["isMarkdownEscapable"]
	if fn == nil {
		return "", fmt.Errorf("shape not recognised: func isMarkdownEscapable not found")
	}
	if got := g.src(fn.Type); got != "func(c byte) bool" {
		return "", fmt.Errorf("shape not recognised: isMarkdownEscapable has signature %s", got)
	}
	body := fn.Body.List
	if len(body) != 2 || g.src(body[1]) != "return false" {
		return "", fmt.Errorf("shape not recognised: isMarkdownEscapable: body")
	}
	sw, ok := body[0].(*ast.SwitchStmt)
	if !ok || sw.Init != nil || sw.Tag == nil || g.src(sw.Tag) != "c" || len(sw.Body.List) != 1 {
		return "", fmt.Errorf("shape not recognised: isMarkdownEscapable: switch")
	}
	cc := sw.Body.List[0].(*ast.CaseClause)
	if cc.List == nil || len(cc.Body) != 1 || g.src(cc.Body[0]) != "return true" {
		return "", fmt.Errorf("shape not recognised: isMarkdownEscapable: clause")
	}
	var set []int
	seen := map[int]bool{}
	for _, e := range cc.List {
		c, err := mdByteLit(e)
		if err != nil {
			return "", fmt.Errorf("isMarkdownEscapable: %v", err)
		}
		if seen[c] {
			return "", fmt.Errorf("shape not recognised: isMarkdownEscapable: duplicate case %d", c)
		}
		seen[c] = true
		set = append(set, c)
	}
	for name := range ldPinnedEscape {
		if err := g.pinned(name, "", ldPinnedEscape); err != nil {
			return "", err
		}
	}
	gl, err := mdLoad(filepath.Join(repo, "cmd", "scriggo", "linkdestination.go"))
	if err != nil {
		return "", err
	}
	for name := range ldPinnedLink {
		if err := gl.pinned(name, "", ldPinnedLink); err != nil {
			return "", err
		}
	}
	var out strings.Builder
	out.WriteString("import ScriggoV.Basic.Bytes\n/-! Byte set of isMarkdownEscapable (cmd/scriggo/mdescape.go). -/\nnamespace ScriggoV.Gen.LinkDestTables\nopen ScriggoV\n\n")
	fmt.Fprintf(&out, "/-- `isMarkdownEscapable`:  %s -/\ndef isMarkdownEscapable (c : UInt8) : Bool :=\n  %s\n\n", mdQuoteSet(set), mdBytePred(set))
	out.WriteString("end ScriggoV.Gen.LinkDestTables\n")
	return out.String(), nil
}
