package main

// Generator "ConvertPanic" (property C05, shared with C12/C13): regenerates from
// /repo/internal/runtime/errors.go:convertPanic the classification of a recovered Go
// panic into the error the virtual machine continues with, and from vm.go:VM.Run the
// table that says which of those errors leave Run as a host panic.
//
//	classify : Bool → Op → Bool → Bool → Payload → Outcome
//	           hasFn  op   neg   nativeCallee
//	runUnwrap : RunErr → RunResult
//
// Recognised statement shapes (anything else is "shape not recognised", never a guess):
//
//	switch err := msg.(type) { case T1, T2: … default: … }
//	if vm.fn == nil { … }                          (every path must return)
//	switch op := vm.fn.Body[vm.pc-1].Op; op { case OpA, -OpA: … fallthrough }
//	switch s := err.Error(); s { case "…", "…": … } / switch err { case "…": … }
//	if x, ok := msg.(T); ok [&& cond] { … }  / if s := err.Error(); cond { … }
//	cond ::= ok | strings.HasPrefix(s, "…") | s == "…" | f(s) | cond && cond | cond || cond
//	         (f: a package function `func f(s string) bool { return cond }`, inlined)
//	s := err.Error()
//	return vm.newPanic(…) | return &fatalError{…} | return <narrowed payload> | break
//	the OpCallIndirect prologue that tests whether the callee is a native callable
//
// The facts about Go's types used by the type tests (runtimeError implements
// runtime.Error, every error class implements error, …) are in the fixed preamble.

import (
	"bytes"
	"fmt"
	"go/ast"
	"go/parser"
	"go/printer"
	"go/token"
	"path/filepath"
	"strconv"
	"strings"
)

func init() {
	generators = append(generators, generator{name: "ConvertPanic", run: genConvertPanic})
}

type cpVar struct {
	kind string // "payload" (the panic value narrowed to typ), "msg" (its message text), "ok" (type test of typ)
	typ  string
}

type cpGen struct {
	fset    *token.FileSet
	helpers map[string]*ast.FuncDecl // func f(s string) bool { return … }
	// msgMode: translate to the type of the PanicError's message (PanicMsg) instead of the Outcome
	msgMode    bool
	rtErrFuncs map[string]bool // functions and methods of errors.go that return runtimeError
}

func (g *cpGen) src(n ast.Node) string {
	var b bytes.Buffer
	printer.Fprint(&b, g.fset, n)
	return strings.Join(strings.Fields(b.String()), " ")
}

func (g *cpGen) errf(n ast.Node, format string, args ...any) error {
	return fmt.Errorf("shape not recognised: %s at %s: %q", fmt.Sprintf(format, args...), g.fset.Position(n.Pos()), g.src(n))
}

// typeTest is the Lean predicate on the payload p for a Go type in a type switch or assertion.
func (g *cpGen) typeTest(t ast.Expr) (string, string, error) {
	name := g.src(t)
	switch name {
	case "stopError":
		return "p.isStopError", name, nil
	case "outError":
		return "p.isOutError", name, nil
	case "runtimeError":
		return "p.isScriggoRuntimeError", name, nil
	case "*fatalError":
		return "p.isFatalError", name, nil
	case "runtime.Error":
		return "p.isRuntimeError", name, nil
	case "string":
		return "p.isString", name, nil
	case "error":
		return "p.isError", name, nil
	}
	return "", "", g.errf(t, "type in a type test")
}

type cpEnv map[string]cpVar

func (e cpEnv) with(name string, v cpVar) cpEnv {
	n := cpEnv{}
	for k, x := range e {
		n[k] = x
	}
	if name != "_" && name != "" {
		n[name] = v
	}
	return n
}

func cpParen(s string) string {
	if strings.ContainsAny(s, " ") && !strings.HasPrefix(s, "(") {
		return "(" + s + ")"
	}
	return s
}

// msgOperand checks that e denotes the message text of the payload.
func (g *cpGen) msgOperand(e ast.Expr, env cpEnv) error {
	if id, ok := e.(*ast.Ident); ok {
		if v, ok := env[id.Name]; ok && (v.kind == "msg" || (v.kind == "payload" && v.typ == "string")) {
			return nil
		}
	}
	// err.Error() of the payload narrowed to an error type: the same text
	if call, ok := e.(*ast.CallExpr); ok && len(call.Args) == 0 {
		if sel, ok := call.Fun.(*ast.SelectorExpr); ok && sel.Sel.Name == "Error" {
			if id, ok := sel.X.(*ast.Ident); ok {
				if v, ok := env[id.Name]; ok && v.kind == "payload" && (v.typ == "runtime.Error" || v.typ == "error" || v.typ == "runtimeError") {
					return nil
				}
			}
		}
	}
	return g.errf(e, "operand is not the panic message")
}

// panicMsgKind is the type of the message given to vm.newPanic: Scriggo's own runtimeError
// (.scriggo) or the recovered value itself (.same).
func (g *cpGen) panicMsgKind(arg ast.Expr, env cpEnv) (string, error) {
	switch a := arg.(type) {
	case *ast.CallExpr:
		name := g.src(a.Fun)
		if name == "runtimeError" || g.rtErrFuncs[strings.TrimPrefix(name, "vm.")] {
			return ".scriggo", nil
		}
	case *ast.Ident:
		if v, ok := env[a.Name]; ok {
			if v.kind == "payload" {
				if v.typ == "runtimeError" {
					return ".scriggo", nil
				}
				return ".same", nil
			}
		} else if a.Name == "msg" {
			return ".same", nil
		}
	}
	return "", g.errf(arg, "message of the new PanicError (expected runtimeError(…), a function returning runtimeError, or the recovered value)")
}

func (g *cpGen) strLit(e ast.Expr) (string, error) {
	lit, ok := e.(*ast.BasicLit)
	if !ok || lit.Kind != token.STRING {
		return "", g.errf(e, "string literal expected")
	}
	s, err := strconv.Unquote(lit.Value)
	if err != nil {
		return "", g.errf(e, "string literal")
	}
	return s, nil
}

func (g *cpGen) cond(e ast.Expr, env cpEnv, depth int) (string, error) {
	switch x := e.(type) {
	case *ast.ParenExpr:
		return g.cond(x.X, env, depth)
	case *ast.Ident:
		if v, ok := env[x.Name]; ok && v.kind == "ok" {
			t, _, err := g.typeTest(&ast.Ident{Name: v.typ})
			if err != nil {
				return "", err
			}
			return t, nil
		}
	case *ast.BinaryExpr:
		switch x.Op {
		case token.LAND, token.LOR:
			l, err := g.cond(x.X, env, depth)
			if err != nil {
				return "", err
			}
			r, err := g.cond(x.Y, env, depth)
			if err != nil {
				return "", err
			}
			op := " && "
			if x.Op == token.LOR {
				op = " || "
			}
			return "(" + l + op + r + ")", nil
		case token.EQL:
			if err := g.msgOperand(x.X, env); err != nil {
				return "", err
			}
			s, err := g.strLit(x.Y)
			if err != nil {
				return "", err
			}
			return fmt.Sprintf("(p.msg == %s /- %q -/)", leanBytes(s), s), nil
		}
	case *ast.CallExpr:
		if g.src(x.Fun) == "strings.HasPrefix" && len(x.Args) == 2 {
			if err := g.msgOperand(x.Args[0], env); err != nil {
				return "", err
			}
			s, err := g.strLit(x.Args[1])
			if err != nil {
				return "", err
			}
			return fmt.Sprintf("(isPrefix %s /- %q -/ p.msg)", leanBytes(s), s), nil
		}
		if id, ok := x.Fun.(*ast.Ident); ok && len(x.Args) == 1 && depth < 3 {
			if fd, ok := g.helpers[id.Name]; ok {
				if err := g.msgOperand(x.Args[0], env); err != nil {
					return "", err
				}
				// func f(s string) bool { return cond }
				ps := fd.Type.Params.List
				if len(ps) != 1 || len(ps[0].Names) != 1 || g.src(ps[0].Type) != "string" || len(fd.Body.List) != 1 {
					return "", g.errf(fd, "helper predicate")
				}
				ret, ok := fd.Body.List[0].(*ast.ReturnStmt)
				if !ok || len(ret.Results) != 1 {
					return "", g.errf(fd, "helper predicate body")
				}
				return g.cond(ret.Results[0], cpEnv{ps[0].Names[0].Name: cpVar{kind: "msg"}}, depth+1)
			}
		}
	}
	return "", g.errf(e, "condition")
}

// bindInit handles the init statement of an if: `x, ok := msg.(T)`, `_, ok := msg.(T)`, `s := err.Error()`.
func (g *cpGen) bindInit(s ast.Stmt, env cpEnv) (cpEnv, error) {
	as, ok := s.(*ast.AssignStmt)
	if !ok || as.Tok != token.DEFINE {
		return nil, g.errf(s, "init statement")
	}
	if len(as.Lhs) == 2 && len(as.Rhs) == 1 {
		ta, ok := as.Rhs[0].(*ast.TypeAssertExpr)
		if ok && ta.Type != nil && g.src(ta.X) == "msg" {
			_, name, err := g.typeTest(ta.Type)
			if err != nil {
				return nil, err
			}
			env = env.with(g.src(as.Lhs[0]), cpVar{kind: "payload", typ: name})
			env = env.with(g.src(as.Lhs[1]), cpVar{kind: "ok", typ: name})
			return env, nil
		}
	}
	if len(as.Lhs) == 1 && len(as.Rhs) == 1 {
		if call, ok := as.Rhs[0].(*ast.CallExpr); ok && len(call.Args) == 0 {
			if sel, ok := call.Fun.(*ast.SelectorExpr); ok && sel.Sel.Name == "Error" {
				if id, ok := sel.X.(*ast.Ident); ok {
					if v, ok := env[id.Name]; ok && v.kind == "payload" && (v.typ == "runtime.Error" || v.typ == "error" || v.typ == "runtimeError") {
						return env.with(g.src(as.Lhs[0]), cpVar{kind: "msg"}), nil
					}
				}
			}
		}
	}
	return nil, g.errf(s, "init statement")
}

const cpIndirectPrologue = `in := vm.fn.Body[vm.pc-1] | v := vm.general(in.A) | if !v.IsValid() || !v.CanInterface() { break } | if f, ok := v.Interface().(*callable); !ok || f.fn != nil { break } | fallthrough`

// stmts translates a statement list into a Lean expression of type Outcome; k is the
// expression for "control falls off the end", kBreak for a break statement.
func (g *cpGen) stmts(list []ast.Stmt, env cpEnv, k, kBreak string) (string, error) {
	if len(list) == 0 {
		return k, nil
	}
	s, rest := list[0], list[1:]
	switch x := s.(type) {
	case *ast.ReturnStmt:
		if len(x.Results) != 1 {
			return "", g.errf(s, "return")
		}
		r := x.Results[0]
		if call, ok := r.(*ast.CallExpr); ok && g.src(call.Fun) == "vm.newPanic" && len(call.Args) == 1 {
			kind, err := g.panicMsgKind(call.Args[0], env)
			if err != nil {
				return "", err
			}
			if g.msgMode {
				return kind, nil
			}
			return ".panicError", nil
		}
		if u, ok := r.(*ast.UnaryExpr); ok && u.Op == token.AND {
			if cl, ok := u.X.(*ast.CompositeLit); ok && g.src(cl.Type) == "fatalError" {
				if g.msgMode {
					return ".none", nil
				}
				return ".fatal", nil
			}
		}
		if id, ok := r.(*ast.Ident); ok {
			if v, ok := env[id.Name]; ok && v.kind == "payload" {
				if g.msgMode && (v.typ == "stopError" || v.typ == "*fatalError" || v.typ == "error") {
					return ".none", nil
				}
				switch v.typ {
				case "stopError":
					return ".stop", nil
				case "*fatalError":
					return ".fatal", nil
				case "error":
					return "(passErr p)", nil
				}
			}
		}
		return "", g.errf(s, "returned value")
	case *ast.BranchStmt:
		if x.Tok == token.BREAK && x.Label == nil {
			return kBreak, nil
		}
		return "", g.errf(s, "branch")
	case *ast.AssignStmt:
		env2, err := g.bindInit(s, env)
		if err != nil {
			return "", err
		}
		return g.stmts(rest, env2, k, kBreak)
	case *ast.IfStmt:
		if x.Else != nil {
			return "", g.errf(s, "if with else")
		}
		kRest, err := g.stmts(rest, env, k, kBreak)
		if err != nil {
			return "", err
		}
		env2 := env
		if x.Init != nil {
			env2, err = g.bindInit(x.Init, env)
			if err != nil {
				return "", err
			}
		}
		c, err := g.cond(x.Cond, env2, 0)
		if err != nil {
			return "", err
		}
		body, err := g.stmts(x.Body.List, env2, kRest, kBreak)
		if err != nil {
			return "", err
		}
		return fmt.Sprintf("(if %s then %s else %s)", c, body, kRest), nil
	case *ast.TypeSwitchStmt:
		kRest, err := g.stmts(rest, env, k, kBreak)
		if err != nil {
			return "", err
		}
		bind := ""
		var subject ast.Expr
		switch a := x.Assign.(type) {
		case *ast.AssignStmt:
			bind = g.src(a.Lhs[0])
			subject = a.Rhs[0]
		case *ast.ExprStmt:
			subject = a.X
		}
		ta, ok := subject.(*ast.TypeAssertExpr)
		if !ok || ta.Type != nil || g.src(ta.X) != "msg" || x.Init != nil {
			return "", g.errf(s, "type switch subject")
		}
		out := kRest
		var deflt *ast.CaseClause
		var clauses []*ast.CaseClause
		for _, c := range x.Body.List {
			cc := c.(*ast.CaseClause)
			if cc.List == nil {
				deflt = cc
			} else {
				clauses = append(clauses, cc)
			}
		}
		if deflt != nil {
			out, err = g.stmts(deflt.Body, env.with(bind, cpVar{kind: "payload", typ: "any"}), kRest, kRest)
			if err != nil {
				return "", err
			}
		}
		for i := len(clauses) - 1; i >= 0; i-- {
			cc := clauses[i]
			var tests []string
			typ := "any"
			for _, t := range cc.List {
				tt, name, err := g.typeTest(t)
				if err != nil {
					return "", err
				}
				tests = append(tests, tt)
				if len(cc.List) == 1 {
					typ = name
				}
			}
			body, err := g.stmts(cc.Body, env.with(bind, cpVar{kind: "payload", typ: typ}), kRest, kRest)
			if err != nil {
				return "", err
			}
			out = fmt.Sprintf("(if %s then %s else %s)", strings.Join(tests, " || "), body, out)
		}
		return out, nil
	case *ast.SwitchStmt:
		kRest, err := g.stmts(rest, env, k, kBreak)
		if err != nil {
			return "", err
		}
		env2 := env
		if x.Init != nil {
			if g.src(x.Init) == "op := vm.fn.Body[vm.pc-1].Op" && g.src(x.Tag) == "op" {
				return g.opSwitch(x, env, kRest)
			}
			env2, err = g.bindInit(x.Init, env)
			if err != nil {
				return "", err
			}
		}
		if x.Tag == nil {
			return "", g.errf(s, "switch without tag")
		}
		if err := g.msgOperand(x.Tag, env2); err != nil {
			return "", err
		}
		out := kRest
		for i := len(x.Body.List) - 1; i >= 0; i-- {
			cc := x.Body.List[i].(*ast.CaseClause)
			if cc.List == nil {
				return "", g.errf(cc, "default in a message switch")
			}
			var tests []string
			for _, e := range cc.List {
				lit, err := g.strLit(e)
				if err != nil {
					return "", err
				}
				tests = append(tests, fmt.Sprintf("(p.msg == %s /- %q -/)", leanBytes(lit), lit))
			}
			body, err := g.stmts(cc.Body, env2, kRest, kRest)
			if err != nil {
				return "", err
			}
			out = fmt.Sprintf("(if %s then %s else %s)", strings.Join(tests, " || "), body, out)
		}
		return out, nil
	}
	return "", g.errf(s, "statement")
}

type cpArm struct {
	ops  []string // "OpX false" / "OpX true"
	body string
}

var cpArms []cpArm

// opSwitch translates `switch op := …; op { … }` into the definition of classifyOp
// (collected in cpArms) and returns the call.
func (g *cpGen) opSwitch(x *ast.SwitchStmt, env cpEnv, kRest string) (string, error) {
	cpArms = nil
	n := len(x.Body.List)
	bodies := make([]string, n)
	for i := n - 1; i >= 0; i-- {
		cc := x.Body.List[i].(*ast.CaseClause)
		if cc.List == nil {
			return "", g.errf(cc, "default in the operation switch")
		}
		list := cc.Body
		var parts []string
		for _, s := range list {
			parts = append(parts, g.src(s))
		}
		var body string
		var err error
		if strings.Join(parts, " | ") == cpIndirectPrologue {
			if i+1 >= n {
				return "", g.errf(cc, "fallthrough in the last clause")
			}
			body = fmt.Sprintf("(if nativeCallee then %s else %s)", bodies[i+1], kRest)
		} else {
			if len(list) > 0 {
				if b, ok := list[len(list)-1].(*ast.BranchStmt); ok && b.Tok == token.FALLTHROUGH {
					return "", g.errf(cc, "fallthrough outside the OpCallIndirect prologue")
				}
			}
			body, err = g.stmts(list, env, kRest, kRest)
			if err != nil {
				return "", err
			}
		}
		bodies[i] = body
	}
	seen := map[string]bool{}
	for i, c := range x.Body.List {
		cc := c.(*ast.CaseClause)
		arm := cpArm{body: bodies[i]}
		for _, e := range cc.List {
			neg := "false"
			if u, ok := e.(*ast.UnaryExpr); ok && u.Op == token.SUB {
				neg = "true"
				e = u.X
			}
			id, ok := e.(*ast.Ident)
			if !ok || !strings.HasPrefix(id.Name, "Op") {
				return "", g.errf(e, "operation in a case")
			}
			key := "." + id.Name + ", " + neg
			if seen[key] {
				return "", g.errf(e, "operation listed twice")
			}
			seen[key] = true
			arm.ops = append(arm.ops, key)
		}
		cpArms = append(cpArms, arm)
	}
	if g.msgMode {
		return "(panicMsgOp op neg nativeCallee p)", nil
	}
	return "(classifyOp op neg nativeCallee p)", nil
}

// cpOps reads the Operation constants of vm.go in order.
func cpOps(file *ast.File) ([]string, error) {
	for _, d := range file.Decls {
		gd, ok := d.(*ast.GenDecl)
		if !ok || gd.Tok != token.CONST || len(gd.Specs) == 0 {
			continue
		}
		first := gd.Specs[0].(*ast.ValueSpec)
		if len(first.Names) != 1 || first.Names[0].Name != "OpNone" {
			continue
		}
		var ops []string
		for i, s := range gd.Specs {
			vs := s.(*ast.ValueSpec)
			if len(vs.Names) != 1 || (i > 0 && (vs.Type != nil || len(vs.Values) != 0)) {
				return nil, fmt.Errorf("shape not recognised: Operation constant block")
			}
			ops = append(ops, vs.Names[0].Name)
		}
		return ops, nil
	}
	return nil, fmt.Errorf("shape not recognised: Operation constant block not found")
}

const cpPreamble = `/-! Classification of recovered Go panics (` + "`errors.go:convertPanic`" + `) and the unwrapping of
` + "`VM.Run`" + ` (` + "`vm.go`" + `), regenerated from /repo. Messages are byte strings. -/
namespace ScriggoV.Gen.ConvertPanic

/-- The classes of values a recovered Go panic can carry, as far as convertPanic looks. -/
inductive Payload where
  | stopError                               -- runtime.stopError
  | outError                                -- runtime.outError
  | scriggoRuntimeError (msg : List UInt8)  -- runtime.runtimeError (Scriggo's own runtime.Error)
  | fatalError                              -- *runtime.fatalError
  | goRuntimeError (msg : List UInt8)       -- any other runtime.Error (raised by Go itself)
  | str (msg : List UInt8)                  -- a string (reflect panics with strings)
  | err                                     -- any other error value
  | other                                   -- any other value
  deriving DecidableEq, Repr

inductive Outcome where
  | panicError   -- a *PanicError: the interpreted program panics (recoverable, reported by Run)
  | fatal        -- a *fatalError: leaves Run as a host panic
  | stop         -- the stopError itself
  | passthrough  -- the error value itself, neither of the above
  deriving DecidableEq, Repr

def Payload.msg : Payload → List UInt8
  | .scriggoRuntimeError m | .goRuntimeError m | .str m => m
  | _ => []

/-! Go typing facts used by the type tests (trusted; see errors.go for the method sets). -/
def Payload.isStopError : Payload → Bool | .stopError => true | _ => false
def Payload.isOutError : Payload → Bool | .outError => true | _ => false
def Payload.isScriggoRuntimeError : Payload → Bool | .scriggoRuntimeError _ => true | _ => false
def Payload.isFatalError : Payload → Bool | .fatalError => true | _ => false
def Payload.isRuntimeError : Payload → Bool | .scriggoRuntimeError _ | .goRuntimeError _ => true | _ => false
def Payload.isString : Payload → Bool | .str _ => true | _ => false
def Payload.isError : Payload → Bool | .str _ | .other => false | _ => true

def isPrefix (pre s : List UInt8) : Bool := pre.isPrefixOf s

/-- an error value returned unchanged: what it is decides what Run does with it -/
def passErr : Payload → Outcome
  | .fatalError => .fatal
  | .stopError => .stop
  | _ => .passthrough

`

func genConvertPanic(repo string) (string, error) {
	fset := token.NewFileSet()
	g := &cpGen{fset: fset, helpers: map[string]*ast.FuncDecl{}, rtErrFuncs: map[string]bool{}}
	errFile, err := parser.ParseFile(fset, filepath.Join(repo, "internal/runtime/errors.go"), nil, 0)
	if err != nil {
		return "", err
	}
	vmFile, err := parser.ParseFile(fset, filepath.Join(repo, "internal/runtime/vm.go"), nil, 0)
	if err != nil {
		return "", err
	}
	ops, err := cpOps(vmFile)
	if err != nil {
		return "", err
	}
	var convert, run *ast.FuncDecl
	for _, d := range errFile.Decls {
		if fd, ok := d.(*ast.FuncDecl); ok {
			if fd.Type.Results != nil && len(fd.Type.Results.List) == 1 && g.src(fd.Type.Results.List[0].Type) == "runtimeError" {
				g.rtErrFuncs[fd.Name.Name] = true
			}
			if fd.Name.Name == "convertPanic" && fd.Recv != nil {
				convert = fd
			} else if fd.Recv == nil && fd.Type.Results != nil && len(fd.Type.Results.List) == 1 && g.src(fd.Type.Results.List[0].Type) == "bool" {
				g.helpers[fd.Name.Name] = fd
			}
		}
	}
	for _, d := range vmFile.Decls {
		if fd, ok := d.(*ast.FuncDecl); ok && fd.Name.Name == "Run" && fd.Recv != nil {
			run = fd
		}
	}
	if convert == nil || run == nil {
		return "", fmt.Errorf("shape not recognised: convertPanic or VM.Run not found")
	}
	if got := g.src(convert.Type); got != "func(msg any) error" {
		return "", fmt.Errorf("shape not recognised: convertPanic signature %q", got)
	}

	// split the body at `if vm.fn == nil { … }`
	var before, after []ast.Stmt
	var noFn *ast.IfStmt
	for i, s := range convert.Body.List {
		if is, ok := s.(*ast.IfStmt); ok && is.Init == nil && g.src(is.Cond) == "vm.fn == nil" && is.Else == nil {
			noFn = is
			before, after = convert.Body.List[:i], convert.Body.List[i+1:]
			break
		}
	}
	if noFn == nil {
		return "", fmt.Errorf("shape not recognised: convertPanic has no `if vm.fn == nil` block (it dereferences vm.fn: a panic recovered while no function is running would crash the host)")
	}
	const sentinel = "FALLS_OFF_THE_END"
	noFnExpr, err := g.stmts(noFn.Body.List, cpEnv{}, sentinel, sentinel)
	if err != nil {
		return "", err
	}
	if strings.Contains(noFnExpr, sentinel) {
		return "", g.errf(noFn, "a path of the vm.fn == nil block does not return")
	}
	// the statements after the operation switch are the tail
	var opSw *ast.SwitchStmt
	var tail []ast.Stmt
	for i, s := range after {
		if sw, ok := s.(*ast.SwitchStmt); ok && sw.Init != nil && g.src(sw.Init) == "op := vm.fn.Body[vm.pc-1].Op" {
			opSw = sw
			tail = after[i+1:]
			if i != 0 {
				return "", g.errf(after[0], "statement between the vm.fn test and the operation switch")
			}
			break
		}
	}
	if opSw == nil {
		return "", fmt.Errorf("shape not recognised: operation switch not found in convertPanic")
	}
	tailExpr, err := g.stmts(tail, cpEnv{}, sentinel, sentinel)
	if err != nil {
		return "", err
	}
	if strings.Contains(tailExpr, sentinel) {
		return "", fmt.Errorf("shape not recognised: the end of convertPanic does not return on every path")
	}
	opCall, err := g.stmts([]ast.Stmt{opSw}, cpEnv{}, "(tail p)", "(tail p)")
	if err != nil {
		return "", err
	}
	arms := cpArms
	mainExpr, err := g.stmts(before, cpEnv{}, "(if hasFn then "+opCall+" else classifyNoFn p)", sentinel)
	if err != nil {
		return "", err
	}
	if strings.Contains(mainExpr, sentinel) {
		return "", fmt.Errorf("shape not recognised: break outside a switch in convertPanic")
	}
	// second pass: the type of the message of the PanicError, with the same structure
	g.msgMode = true
	noFnMsg, err := g.stmts(noFn.Body.List, cpEnv{}, sentinel, sentinel)
	if err != nil {
		return "", err
	}
	tailMsg, err := g.stmts(tail, cpEnv{}, sentinel, sentinel)
	if err != nil {
		return "", err
	}
	opCallMsg, err := g.stmts([]ast.Stmt{opSw}, cpEnv{}, "(tailMsg p)", "(tailMsg p)")
	if err != nil {
		return "", err
	}
	armsMsg := cpArms
	mainMsg, err := g.stmts(before, cpEnv{}, "(if hasFn then "+opCallMsg+" else panicMsgNoFn p)", sentinel)
	if err != nil {
		return "", err
	}
	g.msgMode = false
	known := map[string]bool{}
	for _, o := range ops {
		known[o] = true
	}

	var b strings.Builder
	b.WriteString(cpPreamble)
	b.WriteString("/-- `Operation` constants of vm.go, in order (`iota`). -/\ninductive Op where\n")
	for _, o := range ops {
		fmt.Fprintf(&b, "  | %s\n", o)
	}
	b.WriteString("  deriving DecidableEq, Repr\n\n")
	b.WriteString("def Op.all : List Op := [" + strings.Join(func() []string {
		r := make([]string, len(ops))
		for i, o := range ops {
			r[i] = "." + o
		}
		return r
	}(), ", ") + "]\n\n")
	b.WriteString("def Op.name : Op → String\n")
	for _, o := range ops {
		fmt.Fprintf(&b, "  | .%s => %q\n", o, o)
	}
	b.WriteString("\ndef Op.code : Op → Nat\n")
	for i, o := range ops {
		fmt.Fprintf(&b, "  | .%s => %d\n", o, i)
	}
	b.WriteString("\n/-- the last statements of convertPanic: what no case claimed -/\n")
	fmt.Fprintf(&b, "def tail (p : Payload) : Outcome :=\n  %s\n\n", tailExpr)
	b.WriteString("/-- the `vm.fn == nil` block: a panic recovered while no function is running (a deferred\nnative call made while unwinding) -/\n")
	fmt.Fprintf(&b, "def classifyNoFn (p : Payload) : Outcome :=\n  %s\n\n", noFnExpr)
	b.WriteString("/-- `switch op := vm.fn.Body[vm.pc-1].Op; op`; `neg` is the sign of the operation (constant\noperand form), `nativeCallee` the test of the OpCallIndirect prologue -/\n")
	b.WriteString("def classifyOp (op : Op) (neg nativeCallee : Bool) (p : Payload) : Outcome :=\n  match op, neg with\n")
	for _, a := range arms {
		for _, o := range a.ops {
			name := strings.TrimPrefix(strings.Split(o, ",")[0], ".")
			if !known[name] {
				return "", fmt.Errorf("shape not recognised: case %s is not an Operation constant", name)
			}
		}
		fmt.Fprintf(&b, "  | %s =>\n    %s\n", strings.Join(a.ops, " | "), a.body)
	}
	b.WriteString("  | _, _ => tail p\n\n")
	b.WriteString("/-- convertPanic -/\n")
	fmt.Fprintf(&b, "def classify (hasFn : Bool) (op : Op) (neg nativeCallee : Bool) (p : Payload) : Outcome :=\n  %s\n\n", mainExpr)

	b.WriteString("/-! The type of the message of the *PanicError that convertPanic makes (`vm.newPanic(…)`), with the\nsame structure as the classification: the wrapper of a Scriggo function called by native code\n(callable.Value) re-panics with this message in the native caller. -/\n")
	b.WriteString("inductive PanicMsg where\n  | none     -- no *PanicError is made\n  | scriggo  -- Scriggo's own runtimeError (`runtimeError(…)`, `vm.errIndexOutOfRange()`, …)\n  | same     -- the recovered value itself\n  deriving DecidableEq, Repr\n\n")
	fmt.Fprintf(&b, "def tailMsg (p : Payload) : PanicMsg :=\n  %s\n\n", tailMsg)
	fmt.Fprintf(&b, "def panicMsgNoFn (p : Payload) : PanicMsg :=\n  %s\n\n", noFnMsg)
	b.WriteString("def panicMsgOp (op : Op) (neg nativeCallee : Bool) (p : Payload) : PanicMsg :=\n  match op, neg with\n")
	for _, a := range armsMsg {
		fmt.Fprintf(&b, "  | %s =>\n    %s\n", strings.Join(a.ops, " | "), a.body)
	}
	b.WriteString("  | _, _ => tailMsg p\n\n")
	fmt.Fprintf(&b, "def panicMsg (hasFn : Bool) (op : Op) (neg nativeCallee : Bool) (p : Payload) : PanicMsg :=\n  %s\n\n", mainMsg)

	// ---- VM.Run
	table, err := g.runTable(run)
	if err != nil {
		return "", err
	}
	b.WriteString(table)
	b.WriteString("\nend ScriggoV.Gen.ConvertPanic\n")
	return b.String(), nil
}

// runTable recognises
//
//	err := vm.runFunc(fn, globals)
//	if err != nil { switch e := err.(type) { case *PanicError: … case *fatalError: … case stopError: … }; return err }
//	return nil
func (g *cpGen) runTable(run *ast.FuncDecl) (string, error) {
	var sw *ast.TypeSwitchStmt
	ast.Inspect(run.Body, func(n ast.Node) bool {
		if ts, ok := n.(*ast.TypeSwitchStmt); ok && sw == nil {
			sw = ts
		}
		return true
	})
	if sw == nil || g.src(sw.Assign) != "e := err.(type)" {
		return "", fmt.Errorf("shape not recognised: type switch of VM.Run")
	}
	res := map[string]string{"*PanicError": "", "*fatalError": "", "stopError": ""}
	for _, c := range sw.Body.List {
		cc := c.(*ast.CaseClause)
		if len(cc.List) != 1 {
			return "", g.errf(cc, "clause of VM.Run's switch")
		}
		t := g.src(cc.List[0])
		if _, ok := res[t]; !ok {
			return "", g.errf(cc, "type in VM.Run's switch")
		}
		var parts []string
		for _, s := range cc.Body {
			parts = append(parts, g.src(s))
		}
		body := strings.Join(parts, " | ")
		switch body {
		case "if outErr, ok := e.message.(outError); ok { err = outErr.err }":
			res[t] = "unwrapOut"
		case "panic(e.msg)":
			res[t] = "hostPanic"
		case "err = e.err":
			res[t] = "inner"
		default:
			return "", g.errf(cc, "body of a clause of VM.Run's switch")
		}
	}
	arm := func(t, ctor string) string {
		switch res[t] {
		case "hostPanic":
			return ".hostPanic"
		case "inner":
			return ".returnsInnerError"
		case "unwrapOut":
			return "UNWRAP"
		}
		return ".returnsSame"
	}
	var b strings.Builder
	b.WriteString(`/-- what runFunc hands to VM.Run -/
inductive RunErr where
  | nil
  | panicError (isOutError : Bool)   -- *PanicError; its message is an outError
  | fatalError                       -- *fatalError
  | stopError
  | other                            -- any other error (the context's error, an error passed through)
  deriving DecidableEq, Repr

inductive RunResult where
  | returnsNil
  | returnsSame         -- the error itself (a *PanicError, the context's error, …)
  | returnsInnerError   -- the error wrapped by an outError (the writer's) or a stopError (Stop's argument)
  | hostPanic           -- Run panics
  deriving DecidableEq, Repr

/-- the switch of VM.Run -/
def runUnwrap : RunErr → RunResult
  | .nil => .returnsNil
`)
	pe := arm("*PanicError", "")
	if pe == "UNWRAP" {
		b.WriteString("  | .panicError true => .returnsInnerError\n  | .panicError false => .returnsSame\n")
	} else {
		fmt.Fprintf(&b, "  | .panicError _ => %s\n", pe)
	}
	for _, tc := range [][2]string{{"*fatalError", ".fatalError"}, {"stopError", ".stopError"}} {
		a := arm(tc[0], "")
		if a == "UNWRAP" {
			return "", fmt.Errorf("shape not recognised: outError unwrapping outside the *PanicError clause")
		}
		fmt.Fprintf(&b, "  | %s => %s\n", tc[1], a)
	}
	b.WriteString("  | .other => .returnsSame\n")
	return b.String(), nil
}
