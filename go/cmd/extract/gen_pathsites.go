package main

// Generator "PathSites" (property C18): what the template parser does with the path of an
// extends / import / render before it builds the node that later reaches rooted() and Open.
// Regenerates from /repo/internal/compiler/*.go (tests and verif_* hooks excluded)
//
//	parseEnds   the `end` arguments of all calls `p.parse(tok, end)`: the token kinds a statement can
//	            be closed by (`{% %}`, `{%% %%}`, end of file)
//	guard       Site → Guard.  Starting from every statement that puts a node into `p.unexpanded`
//	            (the list ParseTemplateSource returns and expand() walks), the node is traced back
//	            to its constructor — ast.NewExtends / ast.NewRender in the same statement list, or
//	            ast.NewImport in the single `return` of parseImport — and the statements between
//	            `var path = unquoteString(tok.txt)` and the constructor are evaluated for every
//	            value of `end`:
//	              if !ValidTemplatePath(path) { panic(…) }     → Guard.template
//	              validatePackagePath(path, …)                 → Guard.package
//	              if end ==/!= tokenX {…} else {…}             → the branch taken for that `end`
//	              switch end { case tokenX, …: … default: … }  → the clause taken; no clause: nothing
//	            so a case that was forgotten is an entry Guard.none.  A statement that mentions
//	            `path` and is none of these shapes is "shape not recognised".
//
// The C18 theorem `sites_guarded` is a `decide` over this table.

import (
	"fmt"
	"go/ast"
	"go/token"
	"os"
	"path/filepath"
	"sort"
	"strings"
)

func init() {
	generators = append(generators, generator{name: "PathSites", run: genPathSites})
}

var psEnds = []string{"tokenEndStatement", "tokenEndStatements", "tokenEOF"}

const (
	psNone = iota
	psTemplate
	psPackage
)

var psGuardName = []string{".none", ".template", ".package"}

type psGen struct {
	g       *vbFile
	parents map[ast.Node]ast.Node
}

func psLoad(path string) (*psGen, error) {
	g, err := vbParse(path)
	if err != nil {
		return nil, err
	}
	ps := &psGen{g: g, parents: map[ast.Node]ast.Node{}}
	var stack []ast.Node
	ast.Inspect(g.file, func(n ast.Node) bool {
		if n == nil {
			stack = stack[:len(stack)-1]
			return true
		}
		if len(stack) > 0 {
			ps.parents[n] = stack[len(stack)-1]
		}
		stack = append(stack, n)
		return true
	})
	return ps, nil
}

// listOf returns the statement list that holds s directly, and the index of s in it.
func (ps *psGen) listOf(s ast.Stmt) ([]ast.Stmt, int, error) {
	var list []ast.Stmt
	switch p := ps.parents[s].(type) {
	case *ast.BlockStmt:
		list = p.List
	case *ast.CaseClause:
		list = p.Body
	default:
		return nil, 0, ps.g.errf(s, "statement is not in a block or a case clause")
	}
	for i, x := range list {
		if x == s {
			return list, i, nil
		}
	}
	return nil, 0, ps.g.errf(s, "statement not found in its parent")
}

func psMentions(n ast.Node, name string) bool {
	found := false
	ast.Inspect(n, func(x ast.Node) bool {
		if id, ok := x.(*ast.Ident); ok && id.Name == name {
			found = true
		}
		return !found
	})
	return found
}

func psIsCall(e ast.Expr, fun string) (*ast.CallExpr, bool) {
	c, ok := e.(*ast.CallExpr)
	if !ok {
		return nil, false
	}
	switch f := c.Fun.(type) {
	case *ast.Ident:
		return c, f.Name == fun
	case *ast.SelectorExpr:
		if x, ok := f.X.(*ast.Ident); ok {
			return c, x.Name+"."+f.Sel.Name == fun
		}
	}
	return c, false
}

// evalCond evaluates a condition over `end` for end == e.
func (ps *psGen) evalCond(c ast.Expr, e string) (bool, error) {
	switch c := c.(type) {
	case *ast.ParenExpr:
		return ps.evalCond(c.X, e)
	case *ast.BinaryExpr:
		switch c.Op {
		case token.LOR, token.LAND:
			x, err := ps.evalCond(c.X, e)
			if err != nil {
				return false, err
			}
			y, err := ps.evalCond(c.Y, e)
			if err != nil {
				return false, err
			}
			if c.Op == token.LOR {
				return x || y, nil
			}
			return x && y, nil
		case token.EQL, token.NEQ:
			x, okx := c.X.(*ast.Ident)
			y, oky := c.Y.(*ast.Ident)
			if okx && oky && x.Name == "end" && strings.HasPrefix(y.Name, "token") {
				return (y.Name == e) == (c.Op == token.EQL), nil
			}
		}
	}
	return false, ps.g.errf(c, "condition that guards the path is not a comparison of `end` with a token kind")
}

// evalSeq is the strongest guard the statements apply to pathVar when end == e.
func (ps *psGen) evalSeq(stmts []ast.Stmt, pathVar, e string) (int, error) {
	guard := psNone
	up := func(g int) {
		if g > guard {
			guard = g
		}
	}
	for _, s := range stmts {
		if !psMentions(s, pathVar) {
			continue
		}
		switch s := s.(type) {
		case *ast.ExprStmt:
			if c, ok := psIsCall(s.X, "validatePackagePath"); ok && len(c.Args) == 2 && ps.g.src(c.Args[0]) == pathVar {
				up(psPackage)
				continue
			}
		case *ast.BlockStmt:
			g, err := ps.evalSeq(s.List, pathVar, e)
			if err != nil {
				return 0, err
			}
			up(g)
			continue
		case *ast.IfStmt:
			if s.Init != nil {
				break
			}
			if ps.g.src(s.Cond) == "!ValidTemplatePath("+pathVar+")" {
				if s.Else != nil || len(s.Body.List) != 1 {
					break
				}
				x, ok := s.Body.List[0].(*ast.ExprStmt)
				if !ok {
					break
				}
				c, ok := psIsCall(x.X, "panic")
				if !ok || len(c.Args) != 1 {
					break
				}
				if _, ok := psIsCall(c.Args[0], "syntaxError"); !ok {
					break
				}
				up(psTemplate)
				continue
			}
			if psMentions(s.Cond, pathVar) {
				break
			}
			taken, err := ps.evalCond(s.Cond, e)
			if err != nil {
				return 0, err
			}
			var branch []ast.Stmt
			if taken {
				branch = s.Body.List
			} else if s.Else != nil {
				branch = []ast.Stmt{s.Else}
			}
			g, err := ps.evalSeq(branch, pathVar, e)
			if err != nil {
				return 0, err
			}
			up(g)
			continue
		case *ast.SwitchStmt:
			if s.Init != nil || s.Tag == nil || ps.g.src(s.Tag) != "end" {
				break
			}
			var taken, deflt *ast.CaseClause
			for _, cc := range s.Body.List {
				cl := cc.(*ast.CaseClause)
				if cl.List == nil {
					deflt = cl
				}
				for _, v := range cl.List {
					id, ok := v.(*ast.Ident)
					if !ok || !strings.HasPrefix(id.Name, "token") {
						return 0, ps.g.errf(v, "case of the `end` switch is not a token kind")
					}
					if id.Name == e {
						taken = cl
					}
				}
				for _, b := range cl.Body {
					if br, ok := b.(*ast.BranchStmt); ok && br.Tok == token.FALLTHROUGH {
						return 0, ps.g.errf(b, "fallthrough in the `end` switch")
					}
				}
			}
			if taken == nil {
				taken = deflt
			}
			if taken != nil {
				g, err := ps.evalSeq(taken.Body, pathVar, e)
				if err != nil {
					return 0, err
				}
				up(g)
			}
			continue
		}
		return 0, ps.g.errf(s, "statement between the path and its node mentions `%s` and is not a recognised guard", pathVar)
	}
	return guard, nil
}

// analyze evaluates, for every `end`, the guards between the definition of the path variable
// and the statement list[j] that builds the node from it.
func (ps *psGen) analyze(list []ast.Stmt, j int, pathArg ast.Expr) (map[string]int, error) {
	id, ok := pathArg.(*ast.Ident)
	if !ok {
		return nil, ps.g.errf(pathArg, "the path argument of the node constructor is not a variable")
	}
	def := -1
	for i := j - 1; i >= 0 && def < 0; i-- {
		switch s := list[i].(type) {
		case *ast.DeclStmt:
			if gd, ok := s.Decl.(*ast.GenDecl); ok && gd.Tok == token.VAR && len(gd.Specs) == 1 {
				vs := gd.Specs[0].(*ast.ValueSpec)
				if len(vs.Names) == 1 && vs.Names[0].Name == id.Name && len(vs.Values) == 1 && ps.g.src(vs.Values[0]) == "unquoteString(tok.txt)" {
					def = i
				}
			}
		case *ast.AssignStmt:
			if s.Tok == token.DEFINE && len(s.Lhs) == 1 && ps.g.src(s.Lhs[0]) == id.Name && len(s.Rhs) == 1 && ps.g.src(s.Rhs[0]) == "unquoteString(tok.txt)" {
				def = i
			}
		}
	}
	if def < 0 {
		return nil, ps.g.errf(list[j], "no `var %s = unquoteString(tok.txt)` before the node constructor in the same statement list", id.Name)
	}
	out := map[string]int{}
	for _, e := range psEnds {
		g, err := ps.evalSeq(list[def+1:j], id.Name, e)
		if err != nil {
			return nil, err
		}
		out[e] = g
	}
	return out, nil
}

func genPathSites(repo string) (string, error) {
	dir := filepath.Join(repo, "internal/compiler")
	entries, err := os.ReadDir(dir)
	if err != nil {
		return "", err
	}
	var files []*psGen
	for _, ent := range entries {
		n := ent.Name()
		if !strings.HasSuffix(n, ".go") || strings.HasSuffix(n, "_test.go") || strings.HasPrefix(n, "verif_") {
			continue
		}
		ps, err := psLoad(filepath.Join(dir, n))
		if err != nil {
			return "", err
		}
		files = append(files, ps)
	}

	// parseEnds
	ends := map[string]bool{}
	for _, ps := range files {
		var bad error
		ast.Inspect(ps.g.file, func(n ast.Node) bool {
			c, ok := n.(*ast.CallExpr)
			if !ok {
				return true
			}
			if sel, ok := c.Fun.(*ast.SelectorExpr); ok && sel.Sel.Name == "parse" && ps.g.src(sel.X) == "p" {
				if len(c.Args) != 2 {
					bad = ps.g.errf(c, "p.parse is not called with (tok, end)")
					return false
				}
				id, ok := c.Args[1].(*ast.Ident)
				if !ok {
					bad = ps.g.errf(c, "the `end` argument of p.parse is not a token kind")
					return false
				}
				ends[id.Name] = true
			}
			return true
		})
		if bad != nil {
			return "", bad
		}
	}
	var endList []string
	for e := range ends {
		known := false
		for _, k := range psEnds {
			known = known || k == e
		}
		if !known {
			return "", fmt.Errorf("shape not recognised: p.parse is entered with the end token %s, which the site model does not know", e)
		}
		endList = append(endList, e)
	}
	sort.Strings(endList)

	// every write to p.unexpanded
	guards := map[string]map[string]int{} // "ext"|"imp"|"ren" → end → guard
	merge := func(kind string, g map[string]int) {
		if old, ok := guards[kind]; ok {
			for e, v := range g {
				if v < old[e] {
					old[e] = v // several sites of one kind: the weakest
				}
			}
			return
		}
		guards[kind] = g
	}
	appends := 0
	var importFn *ast.FuncDecl
	var importPS *psGen
	for _, ps := range files {
		if fd, err := ps.g.fn("parsing", "parseImport"); err == nil {
			importFn, importPS = fd, ps
		}
	}
	for _, ps := range files {
		var stmts []*ast.AssignStmt
		ast.Inspect(ps.g.file, func(n ast.Node) bool {
			if a, ok := n.(*ast.AssignStmt); ok {
				for _, l := range a.Lhs {
					if strings.Contains(ps.g.src(l), "unexpanded") && strings.HasPrefix(ps.g.src(l), "p.") {
						stmts = append(stmts, a)
					}
				}
			}
			return true
		})
		for _, a := range stmts {
			if len(a.Lhs) != 1 || len(a.Rhs) != 1 {
				return "", ps.g.errf(a, "write to p.unexpanded of an unknown form")
			}
			lhs := ps.g.src(a.Lhs[0])
			list, idx, err := ps.listOf(a)
			if err != nil {
				return "", err
			}
			if lhs == "p.unexpanded[len(p.unexpanded)-1]" {
				// the render node just appended is wrapped into its Default node
				cl, ok := ps.parents[a].(*ast.CaseClause)
				if !ok || len(cl.List) != 1 || ps.g.src(cl.List[0]) != "*ast.Render" || ps.g.src(a.Rhs[0]) != "node" {
					return "", ps.g.errf(a, "replacement of the last unexpanded node outside `case *ast.Render:`")
				}
				sw, ok := ps.parents[ps.parents[cl]].(*ast.TypeSwitchStmt)
				if !ok || ps.g.src(sw.Assign) != "operand.(type)" {
					return "", ps.g.errf(a, "replacement of the last unexpanded node: not under `switch operand.(type)`")
				}
				outer, oi, err := ps.listOf(sw)
				if err != nil {
					return "", err
				}
				found := false
				for _, s := range outer[:oi] {
					if ps.g.src(s) == "node := ast.NewDefault(pos, operand, nil)" {
						found = true
					}
				}
				if !found {
					return "", ps.g.errf(a, "replacement of the last unexpanded node: `node` is not ast.NewDefault(pos, operand, nil)")
				}
				continue
			}
			c, ok := psIsCall(a.Rhs[0], "append")
			if lhs != "p.unexpanded" || !ok || len(c.Args) != 2 || ps.g.src(c.Args[0]) != "p.unexpanded" {
				return "", ps.g.errf(a, "write to p.unexpanded that is not `p.unexpanded = append(p.unexpanded, x)`")
			}
			x, ok := c.Args[1].(*ast.Ident)
			if !ok {
				return "", ps.g.errf(a, "the node appended to p.unexpanded is not a variable")
			}
			appends++
			// the nearest assignment to x before the append, in the same list
			traced := false
			for i := idx - 1; i >= 0 && !traced; i-- {
				as, ok := list[i].(*ast.AssignStmt)
				if !ok || len(as.Lhs) == 0 || ps.g.src(as.Lhs[0]) != x.Name {
					continue
				}
				if len(as.Rhs) != 1 {
					return "", ps.g.errf(as, "source of the unexpanded node not recognised")
				}
				if call, ok := psIsCall(as.Rhs[0], "ast.NewExtends"); ok && len(call.Args) == 3 {
					g, err := ps.analyze(list, i, call.Args[1])
					if err != nil {
						return "", err
					}
					merge("ext", g)
					traced = true
				} else if call, ok := psIsCall(as.Rhs[0], "ast.NewRender"); ok && len(call.Args) == 2 {
					g, err := ps.analyze(list, i, call.Args[1])
					if err != nil {
						return "", err
					}
					merge("ren", g)
					traced = true
				} else if call, ok := as.Rhs[0].(*ast.CallExpr); ok && ps.g.src(call.Fun) == "p.parseImport" {
					if len(as.Lhs) != 2 || len(call.Args) != 2 || ps.g.src(call.Args[1]) != "end" {
						return "", ps.g.errf(as, "parseImport is not called as `node, tok = p.parseImport(tok, end)`")
					}
					traced = true
				} else {
					return "", ps.g.errf(as, "source of the unexpanded node is none of ast.NewExtends, ast.NewRender, p.parseImport")
				}
			}
			if !traced {
				return "", ps.g.errf(a, "the node appended to p.unexpanded is not assigned in the same statement list")
			}
		}
	}
	if appends == 0 {
		return "", fmt.Errorf("shape not recognised: no `p.unexpanded = append(p.unexpanded, x)` found")
	}
	// parseImport: one return, of ast.NewImport(pos, ident, path, forIdents)
	if importFn == nil {
		return "", fmt.Errorf("shape not recognised: func (*parsing).parseImport not found")
	}
	{
		ps := importPS
		params := importFn.Type.Params.List
		if len(params) != 2 || len(params[1].Names) != 1 || params[1].Names[0].Name != "end" {
			return "", ps.g.errf(importFn.Type, "parseImport's second parameter is not `end`")
		}
		var rets []*ast.ReturnStmt
		ast.Inspect(importFn.Body, func(n ast.Node) bool {
			if _, ok := n.(*ast.FuncLit); ok {
				return false
			}
			if r, ok := n.(*ast.ReturnStmt); ok {
				rets = append(rets, r)
			}
			return true
		})
		if len(rets) != 1 {
			return "", ps.g.errf(importFn.Body, "parseImport has %d return statements, expected one", len(rets))
		}
		list, idx, err := ps.listOf(rets[0])
		if err != nil {
			return "", err
		}
		if len(rets[0].Results) != 2 {
			return "", ps.g.errf(rets[0], "parseImport does not return (node, tok)")
		}
		call, ok := psIsCall(rets[0].Results[0], "ast.NewImport")
		if !ok || len(call.Args) != 4 {
			return "", ps.g.errf(rets[0], "parseImport does not return ast.NewImport(pos, ident, path, forIdents)")
		}
		if ps.parents[rets[0]] != ast.Node(importFn.Body) {
			return "", ps.g.errf(rets[0], "the return of parseImport is not at the top level of its body")
		}
		g, err := ps.analyze(list, idx, call.Args[2])
		if err != nil {
			return "", err
		}
		merge("imp", g)
	}
	for _, k := range []string{"ext", "imp", "ren"} {
		if guards[k] == nil {
			return "", fmt.Errorf("shape not recognised: no site of kind %s puts a node into p.unexpanded", k)
		}
	}
	ren := guards["ren"]
	if ren["tokenEOF"] != ren["tokenEndStatement"] || ren["tokenEOF"] != ren["tokenEndStatements"] {
		return "", fmt.Errorf("shape not recognised: the guard of render depends on `end`; the operand of {{ }} has no end token")
	}

	var b strings.Builder
	b.WriteString("import ScriggoV.Model.PathSites\n")
	b.WriteString("/-! What the template parser does with the path of extends / import / render before the node is built,\n")
	b.WriteString("per value of `end`; re-read from internal/compiler (parse, parseImport, parseExpr). -/\n")
	b.WriteString("namespace ScriggoV.Gen.PathSites\nopen ScriggoV.Paths\n\n")
	b.WriteString("/-- the `end` arguments of the calls `p.parse(tok, end)` -/\n")
	b.WriteString("def parseEnds : List String := [")
	for i, e := range endList {
		if i > 0 {
			b.WriteString(", ")
		}
		fmt.Fprintf(&b, "%q", e)
	}
	b.WriteString("]\n\n")
	fmt.Fprintf(&b, "/-- number of statements `p.unexpanded = append(p.unexpanded, x)`; every x is traced to a site below -/\ndef unexpandedAppends : Nat := %d\n\n", appends)
	b.WriteString("/-- the guard between `path = unquoteString(tok.txt)` and the node constructor -/\n")
	b.WriteString("def guard : Site → Guard\n")
	row := func(site, kind, end string) {
		fmt.Fprintf(&b, "  | .%s => %s\n", site, psGuardName[guards[kind][end]])
	}
	row("extStmt", "ext", "tokenEndStatement")
	row("extStmts", "ext", "tokenEndStatements")
	row("extEOF", "ext", "tokenEOF")
	row("impStmt", "imp", "tokenEndStatement")
	row("impStmts", "imp", "tokenEndStatements")
	row("impEOF", "imp", "tokenEOF")
	row("renShow", "ren", "tokenEndStatement")
	row("renStmt", "ren", "tokenEndStatement")
	row("renStmts", "ren", "tokenEndStatements")
	row("renEOF", "ren", "tokenEOF")
	b.WriteString("\nend ScriggoV.Gen.PathSites\n")
	return b.String(), nil
}
