package main

// Generator "FieldIndex" (property C01): the per-function table of struct field-index paths.
//
//	internal/compiler/builder.go
//	  const maxFieldIndexesCount
//	  func sameFieldIndex(i1, i2 []int) bool         the equality the table is de-duplicated with
//	  func (fb *functionBuilder) makeFieldIndex(index []int) int8
//	internal/runtime/vm.go
//	  func (vm *VM) fieldByIndex(s reflect.Value, i uint8) reflect.Value    the reader of the table
//
// The control skeleton of the three functions is fixed (anything else is "shape not recognised");
// the comparisons, their operand order, the returned constants, which slice is ranged over, the
// argument order of the call and the limit test are read off the AST and become definitions of
// lean/ScriggoV/Gen/FieldIndex.lean, on which Model/FieldIndex.lean builds `sameFieldIndex` and
// `makeFieldIndex` and Props/C01.lean proves that a lookup answers an index whose stored path IS
// the requested path.

import (
	"fmt"
	"go/ast"
	"go/parser"
	"go/token"
	"path/filepath"
	"strings"
)

func init() {
	generators = append(generators, generator{name: "FieldIndex", run: genFieldIndex})
}

// fiCmp translates a Go comparison `x op y` over the named Lean operands.
func fiCmp(op token.Token, x, y string) (string, error) {
	switch op {
	case token.EQL:
		return fmt.Sprintf("decide (%s = %s)", x, y), nil
	case token.NEQ:
		return fmt.Sprintf("decide (%s ≠ %s)", x, y), nil
	case token.LSS:
		return fmt.Sprintf("decide (%s < %s)", x, y), nil
	case token.LEQ:
		return fmt.Sprintf("decide (%s ≤ %s)", x, y), nil
	case token.GTR:
		return fmt.Sprintf("decide (%s > %s)", x, y), nil
	case token.GEQ:
		return fmt.Sprintf("decide (%s ≥ %s)", x, y), nil
	}
	return "", fmt.Errorf("shape not recognised: comparison operator %s", op)
}

func fiBoolLit(e ast.Expr) (string, bool) {
	if id, ok := e.(*ast.Ident); ok && (id.Name == "true" || id.Name == "false") {
		return id.Name, true
	}
	return "", false
}

// fiReturnBool: the statement list is exactly `return true|false`
func fiReturnBool(list []ast.Stmt) (string, bool) {
	if len(list) != 1 {
		return "", false
	}
	r, ok := list[0].(*ast.ReturnStmt)
	if !ok || len(r.Results) != 1 {
		return "", false
	}
	return fiBoolLit(r.Results[0])
}

// fiGuard: `if <cond> { return <bool> }` without init and else
func fiGuard(s ast.Stmt) (*ast.BinaryExpr, string, bool) {
	is, ok := s.(*ast.IfStmt)
	if !ok || is.Init != nil || is.Else != nil {
		return nil, "", false
	}
	be, ok := is.Cond.(*ast.BinaryExpr)
	if !ok {
		return nil, "", false
	}
	res, ok := fiReturnBool(is.Body.List)
	return be, res, ok
}

func genFieldIndex(repo string) (string, error) {
	fset := token.NewFileSet()
	bf, err := parser.ParseFile(fset, filepath.Join(repo, "internal", "compiler", "builder.go"), nil, 0)
	if err != nil {
		return "", err
	}
	vf, err := parser.ParseFile(fset, filepath.Join(repo, "internal", "runtime", "vm.go"), nil, 0)
	if err != nil {
		return "", err
	}
	find := func(f *ast.File, name string) *ast.FuncDecl {
		for _, d := range f.Decls {
			if fd, ok := d.(*ast.FuncDecl); ok && fd.Name.Name == name && fd.Body != nil {
				return fd
			}
		}
		return nil
	}
	bad := func(format string, a ...any) (string, error) {
		return "", fmt.Errorf("shape not recognised: "+format, a...)
	}

	// ---- const maxFieldIndexesCount
	maxCount := ""
	for _, d := range bf.Decls {
		gd, ok := d.(*ast.GenDecl)
		if !ok || gd.Tok != token.CONST {
			continue
		}
		for _, sp := range gd.Specs {
			vs := sp.(*ast.ValueSpec)
			for i, n := range vs.Names {
				if n.Name == "maxFieldIndexesCount" && i < len(vs.Values) {
					if bl, ok := vs.Values[i].(*ast.BasicLit); ok && bl.Kind == token.INT {
						maxCount = bl.Value
					}
				}
			}
		}
	}
	if maxCount == "" || strings.ContainsAny(maxCount, "xXoObB_") {
		return bad("const maxFieldIndexesCount is not a decimal literal")
	}

	// ---- sameFieldIndex
	same := find(bf, "sameFieldIndex")
	if same == nil || same.Recv != nil {
		return bad("func sameFieldIndex not found")
	}
	if t := swText(fset, same.Type); t != "func(i1, i2 []int) bool" {
		return bad("sameFieldIndex has signature %s", t)
	}
	if len(same.Body.List) != 3 {
		return bad("sameFieldIndex: %d statements instead of guard, loop, return", len(same.Body.List))
	}
	lenOperand := func(e ast.Expr) (string, bool) {
		switch swText(fset, e) {
		case "len(i1)":
			return "n1", true
		case "len(i2)":
			return "n2", true
		}
		return "", false
	}
	gcond, gres, ok := fiGuard(same.Body.List[0])
	if !ok {
		return bad("sameFieldIndex: first statement is not `if <comparison> { return <bool> }`: %s", swText(fset, same.Body.List[0]))
	}
	gx, ok1 := lenOperand(gcond.X)
	gy, ok2 := lenOperand(gcond.Y)
	if !ok1 || !ok2 {
		return bad("sameFieldIndex: the length guard compares %s", swText(fset, gcond))
	}
	lenGuard, err := fiCmp(gcond.Op, gx, gy)
	if err != nil {
		return "", err
	}
	rng, ok := same.Body.List[1].(*ast.RangeStmt)
	if !ok || rng.Tok != token.DEFINE || rng.Key == nil || rng.Value == nil {
		return bad("sameFieldIndex: second statement is not `for k, i := range …`")
	}
	key, val, ranged := swText(fset, rng.Key), swText(fset, rng.Value), swText(fset, rng.X)
	var other string
	switch ranged {
	case "i1":
		other = "i2"
	case "i2":
		other = "i1"
	default:
		return bad("sameFieldIndex ranges over %s", ranged)
	}
	if key == "_" || val == "_" || len(rng.Body.List) != 1 {
		return bad("sameFieldIndex: loop %s", swText(fset, rng))
	}
	econd, eres, ok := fiGuard(rng.Body.List[0])
	if !ok {
		return bad("sameFieldIndex: loop body is not `if <comparison> { return <bool> }`: %s", swText(fset, rng.Body.List[0]))
	}
	elemOperand := func(e ast.Expr) (string, bool) {
		switch swText(fset, e) {
		case val, ranged + "[" + key + "]":
			return "a", true // the element of the ranged slice
		case other + "[" + key + "]":
			return "b", true // the element of the other slice at the same position (may fault)
		}
		return "", false
	}
	ex, ok1 := elemOperand(econd.X)
	ey, ok2 := elemOperand(econd.Y)
	if !ok1 || !ok2 {
		return bad("sameFieldIndex: the loop compares %s", swText(fset, econd))
	}
	elemGuard, err := fiCmp(econd.Op, ex, ey)
	if err != nil {
		return "", err
	}
	fres, ok := fiReturnBool(same.Body.List[2:])
	if !ok {
		return bad("sameFieldIndex: last statement is not `return <bool>`")
	}

	// ---- makeFieldIndex
	mk := find(bf, "makeFieldIndex")
	if mk == nil || mk.Recv == nil {
		return bad("method makeFieldIndex not found")
	}
	if t := swText(fset, mk.Type); t != "func(index []int) int8" {
		return bad("makeFieldIndex has signature %s", t)
	}
	recv := mk.Recv.List[0].Names[0].Name
	table := recv + ".fn.FieldIndexes"
	if len(mk.Body.List) != 5 {
		return bad("makeFieldIndex: %d statements instead of loop, length, limit test, append, return", len(mk.Body.List))
	}
	mrng, ok := mk.Body.List[0].(*ast.RangeStmt)
	if !ok || mrng.Tok != token.DEFINE || mrng.Key == nil || mrng.Value == nil || swText(fset, mrng.X) != table || len(mrng.Body.List) != 1 {
		return bad("makeFieldIndex: first statement is not `for i, index2 := range %s { … }`", table)
	}
	mkey, mval := swText(fset, mrng.Key), swText(fset, mrng.Value)
	mis, ok := mrng.Body.List[0].(*ast.IfStmt)
	if !ok || mis.Init != nil || mis.Else != nil || len(mis.Body.List) != 1 {
		return bad("makeFieldIndex: loop body %s", swText(fset, mrng.Body))
	}
	var requestedFirst string
	switch swText(fset, mis.Cond) {
	case "sameFieldIndex(index, " + mval + ")":
		requestedFirst = "true"
	case "sameFieldIndex(" + mval + ", index)":
		requestedFirst = "false"
	default:
		return bad("makeFieldIndex: loop condition %s", swText(fset, mis.Cond))
	}
	if t := swText(fset, mis.Body.List[0]); t != "return int8("+mkey+")" {
		return bad("makeFieldIndex: a hit answers `%s` instead of the position in the table", t)
	}
	if t := swText(fset, mk.Body.List[1]); t != "r := len("+table+")" {
		return bad("makeFieldIndex: %s", t)
	}
	lis, ok := mk.Body.List[2].(*ast.IfStmt)
	if !ok || lis.Init != nil || lis.Else != nil || len(lis.Body.List) != 1 {
		return bad("makeFieldIndex: limit test %s", swText(fset, mk.Body.List[2]))
	}
	lcond, ok := lis.Cond.(*ast.BinaryExpr)
	if !ok {
		return bad("makeFieldIndex: limit test %s", swText(fset, lis.Cond))
	}
	limOperand := func(e ast.Expr) (string, bool) {
		switch swText(fset, e) {
		case "r":
			return "r", true
		case "maxFieldIndexesCount":
			return "maxFieldIndexesCount", true
		}
		return "", false
	}
	lx, ok1 := limOperand(lcond.X)
	ly, ok2 := limOperand(lcond.Y)
	if !ok1 || !ok2 || lx == ly {
		return bad("makeFieldIndex: limit test %s", swText(fset, lis.Cond))
	}
	limit, err := fiCmp(lcond.Op, lx, ly)
	if err != nil {
		return "", err
	}
	if t := swText(fset, lis.Body.List[0]); !strings.HasPrefix(t, "panic(newLimitExceededError(") {
		return bad("makeFieldIndex: limit test body %s", t)
	}
	if t := swText(fset, mk.Body.List[3]); t != table+" = append("+table+", index)" {
		return bad("makeFieldIndex: %s", t)
	}
	if t := swText(fset, mk.Body.List[4]); t != "return int8(r)" {
		return bad("makeFieldIndex: %s", t)
	}

	// ---- fieldByIndex (the reader): for every element of the stored path, dereference a pointer
	// (nil → errNilPointer), then take the field
	fbi := find(vf, "fieldByIndex")
	if fbi == nil || fbi.Recv == nil {
		return bad("method fieldByIndex not found")
	}
	if t := swText(fset, fbi.Type); t != "func(s reflect.Value, i uint8) reflect.Value" {
		return bad("fieldByIndex has signature %s", t)
	}
	want := "{ v := s for _, x := range vm.fn.FieldIndexes[i] { if v.Kind() == reflect.Pointer { if v.IsNil() { panic(errNilPointer) } v = v.Elem() } v = v.Field(x) } return v }"
	if t := swText(fset, fbi.Body); t != want {
		return bad("fieldByIndex: body is %s", t)
	}

	var b strings.Builder
	b.WriteString("namespace ScriggoV.Gen.FieldIndex\n\n")
	fmt.Fprintf(&b, "/-- `const maxFieldIndexesCount` (builder.go) -/\ndef maxFieldIndexesCount : Nat := %s\n\n", maxCount)
	fmt.Fprintf(&b, "/-- sameFieldIndex(i1, i2): `if %s { return %s }`, `n1 = len(i1)`, `n2 = len(i2)` -/\ndef lenGuard (n1 n2 : Nat) : Bool := %s\ndef lenGuardResult : Bool := %s\n\n", swText(fset, gcond), gres, lenGuard, gres)
	fmt.Fprintf(&b, "/-- `for %s, %s := range %s`: is the ranged slice the first parameter? -/\ndef rangeFirst : Bool := %v\n\n", key, val, ranged, ranged == "i1")
	fmt.Fprintf(&b, "/-- loop body `if %s { return %s }`: `a` the element of the ranged slice, `b` the element of the other slice at the same position -/\ndef elemGuard (a b : Int) : Bool := %s\ndef elemGuardResult : Bool := %s\n\n", swText(fset, econd), eres, elemGuard, eres)
	fmt.Fprintf(&b, "/-- the final `return %s` -/\ndef finalResult : Bool := %s\n\n", fres, fres)
	fmt.Fprintf(&b, "/-- makeFieldIndex(index): `for %s, %s := range %s { if %s { return int8(%s) } }`: is the requested path the first argument? -/\ndef requestedFirst : Bool := %s\n\n", mkey, mval, table, swText(fset, mis.Cond), mkey, requestedFirst)
	fmt.Fprintf(&b, "/-- `r := len(%s); if %s { panic(LimitExceeded) }` -/\ndef limitReached (r : Nat) : Bool := %s\n\n", table, swText(fset, lis.Cond), limit)
	b.WriteString("/-- makeFieldIndex answers `int8(position)`, the users index the table with `uint8(operand)` (fieldByIndex takes a uint8) -/\ndef indexBits : Nat := 8\n\n")
	b.WriteString("end ScriggoV.Gen.FieldIndex\n")
	return b.String(), nil
}
