package main

// Generator "LinkDestFence" (property C29): regenerates from /repo/cmd/scriggo/linkdestination.go
// the decisions of the fence / indented-code detection of the Markdown link-destination scanner:
//
//	isFenceStart    the four rejecting conditions (indentation, fence character, run length, info string)
//	isFenceClose    the two rejecting conditions (indentation, run length against the opening fence)
//	isIndentedCode  the returned condition
//
// Each condition is translated from the Go expression (comparisons of the named integers and
// bytes, && || !, integer and character literals, `len(line)`, `util.IsBlank(line)`,
// `bytes.IndexByte(line[pos+run:], c) >= 0`); the straight-line skeleton around the conditions
// (which value is computed from which, what is returned) is matched statement by statement and
// is what Model/LinkDestFence.lean mirrors. countRun and the line loop of collectReplacements
// (modelled by hand: `countRun`, `fenceScan`) are pinned by a hash of their source text.
// Anything else is "shape not recognised". Uses the helpers of gen_mdtables.go.

import (
	"fmt"
	"go/ast"
	"go/token"
	"path/filepath"
	"strconv"
	"strings"
)

func init() {
	generators = append(generators, generator{name: "LinkDestFence", run: genLinkDestFence})
}

var lfPinned = map[string]string{
	"countRun":                   "e2a8a2d4f4203a3d",
	"method:collectReplacements": "9c5fc8556bdabc20",
}

// lfVar: a Go expression (by its normalised source) that a condition may mention, the Lean
// name it has in the generated definition and whether it is an integer, a byte or a truth value
type lfVar struct {
	src, lean, kind string // kind: nat, byte, bool
}

type lfEnv struct {
	g    *mdGen
	vars []lfVar
	used map[string]bool
}

func (e *lfEnv) lookup(x ast.Expr) (lfVar, bool) {
	s := e.g.src(x)
	for _, v := range e.vars {
		if v.src == s {
			e.used[v.lean] = true
			return v, true
		}
	}
	return lfVar{}, false
}

// term: an integer or byte operand
func (e *lfEnv) term(x ast.Expr) (lean, kind string, err error) {
	if v, ok := e.lookup(x); ok && (v.kind == "nat" || v.kind == "byte") {
		return v.lean, v.kind, nil
	}
	switch t := x.(type) {
	case *ast.ParenExpr:
		return e.term(t.X)
	case *ast.BasicLit:
		switch t.Kind {
		case token.INT:
			n, perr := strconv.ParseUint(t.Value, 0, 32)
			if perr != nil {
				return "", "", fmt.Errorf("shape not recognised: integer literal %s", t.Value)
			}
			return strconv.FormatUint(n, 10), "lit", nil
		case token.CHAR:
			c, cerr := mdByteLit(t)
			if cerr != nil {
				return "", "", cerr
			}
			return strconv.Itoa(c), "byte", nil
		}
	case *ast.BinaryExpr:
		if t.Op == token.ADD || t.Op == token.MUL {
			a, ka, err := e.term(t.X)
			if err != nil {
				return "", "", err
			}
			b, kb, err := e.term(t.Y)
			if err != nil {
				return "", "", err
			}
			if ka == "byte" || kb == "byte" {
				return "", "", fmt.Errorf("shape not recognised: arithmetic on bytes in %s", e.g.src(x))
			}
			return "(" + a + " " + t.Op.String() + " " + b + ")", "nat", nil
		}
	}
	return "", "", fmt.Errorf("shape not recognised: operand %s", e.g.src(x))
}

// cond: a truth value, as a Lean Bool expression
func (e *lfEnv) cond(x ast.Expr) (string, error) {
	if v, ok := e.lookup(x); ok && v.kind == "bool" {
		return v.lean, nil
	}
	switch t := x.(type) {
	case *ast.ParenExpr:
		return e.cond(t.X)
	case *ast.UnaryExpr:
		if t.Op == token.NOT {
			a, err := e.cond(t.X)
			if err != nil {
				return "", err
			}
			return "(!" + a + ")", nil
		}
	case *ast.BinaryExpr:
		switch t.Op {
		case token.LAND, token.LOR:
			a, err := e.cond(t.X)
			if err != nil {
				return "", err
			}
			b, err := e.cond(t.Y)
			if err != nil {
				return "", err
			}
			return "(" + a + " " + t.Op.String() + " " + b + ")", nil
		case token.LSS, token.LEQ, token.GTR, token.GEQ, token.EQL, token.NEQ:
			// `bytes.IndexByte(<info>, c) >= 0`: the byte occurs in what follows the run
			if call, ok := t.X.(*ast.CallExpr); ok && t.Op == token.GEQ && e.g.src(call.Fun) == "bytes.IndexByte" && len(call.Args) == 2 && e.g.src(t.Y) == "0" {
				if v, ok := e.lookup(call.Args[0]); ok && v.kind == "bytes" {
					c, kc, err := e.term(call.Args[1])
					if err != nil {
						return "", err
					}
					if kc != "byte" {
						return "", fmt.Errorf("shape not recognised: %s", e.g.src(x))
					}
					return "(" + v.lean + ".contains " + c + ")", nil
				}
			}
			a, ka, err := e.term(t.X)
			if err != nil {
				return "", err
			}
			b, kb, err := e.term(t.Y)
			if err != nil {
				return "", err
			}
			isByte := ka == "byte" || kb == "byte"
			if isByte && (ka == "nat" || kb == "nat") {
				return "", fmt.Errorf("shape not recognised: byte compared with integer in %s", e.g.src(x))
			}
			if isByte {
				switch t.Op {
				case token.EQL:
					return "(" + a + " == " + b + ")", nil
				case token.NEQ:
					return "(" + a + " != " + b + ")", nil
				}
				return "(decide ((" + a + " : UInt8) " + lfRel(t.Op) + " " + b + "))", nil
			}
			return "(decide ((" + a + " : Nat) " + lfRel(t.Op) + " " + b + "))", nil
		}
	}
	return "", fmt.Errorf("shape not recognised: condition %s", e.g.src(x))
}

func lfRel(op token.Token) string {
	switch op {
	case token.LSS:
		return "<"
	case token.LEQ:
		return "≤"
	case token.GTR:
		return ">"
	case token.GEQ:
		return "≥"
	case token.EQL:
		return "="
	}
	return "≠"
}

// lfStep: one statement of a function's skeleton: either its exact source, or an `if` with the
// given body whose condition becomes the generated definition `def`
type lfStep struct {
	exact  string // normalised source the statement must have ("" for a condition)
	def    string // name of the generated definition
	body   string // the `if`'s body, e.g. "{ return false }"; "return" = the statement is `return <cond>`
	params string // Lean binder list of the definition
}

func lfFunc(g *mdGen, out *strings.Builder, name, sig string, vars []lfVar, steps []lfStep) error {
	fn := g.funcs[name]
	if fn == nil {
		return fmt.Errorf("shape not recognised: func %s not found", name)
	}
	if got := g.src(fn.Type); got != sig {
		return fmt.Errorf("shape not recognised: %s has signature %s", name, got)
	}
	if len(fn.Body.List) != len(steps) {
		return fmt.Errorf("shape not recognised: %s has %d statements, the model was written for %d", name, len(fn.Body.List), len(steps))
	}
	for i, st := range fn.Body.List {
		want := steps[i]
		if want.exact != "" {
			if got := g.src(st); got != want.exact {
				return fmt.Errorf("shape not recognised: %s, statement %d is `%s`, the model was written for `%s`", name, i+1, got, want.exact)
			}
			continue
		}
		var condExpr ast.Expr
		if want.body == "return" {
			rs, ok := st.(*ast.ReturnStmt)
			if !ok || len(rs.Results) != 1 {
				return fmt.Errorf("shape not recognised: %s, statement %d: expected `return <condition>`", name, i+1)
			}
			condExpr = rs.Results[0]
		} else {
			is, ok := st.(*ast.IfStmt)
			if !ok || is.Init != nil || is.Else != nil || g.src(is.Body) != want.body {
				return fmt.Errorf("shape not recognised: %s, statement %d: expected `if <condition> %s`", name, i+1, want.body)
			}
			condExpr = is.Cond
		}
		env := &lfEnv{g: g, vars: vars, used: map[string]bool{}}
		lean, err := env.cond(condExpr)
		if err != nil {
			return fmt.Errorf("%s, statement %d: %v", name, i+1, err)
		}
		bound := map[string]bool{}
		for _, w := range strings.FieldsFunc(want.params, func(r rune) bool { return !(r >= 'a' && r <= 'z' || r >= 'A' && r <= 'Z') }) {
			bound[w] = true
		}
		for v := range env.used {
			if !bound[v] {
				return fmt.Errorf("shape not recognised: %s, statement %d: the condition `%s` depends on %s, which the model does not pass to it", name, i+1, g.src(condExpr), v)
			}
		}
		fmt.Fprintf(out, "/-- `%s`: `%s` -/\ndef %s %s : Bool :=\n  %s\n\n", name, g.src(condExpr), want.def, want.params, lean)
	}
	return nil
}

func genLinkDestFence(repo string) (string, error) {
	g, err := mdLoad(filepath.Join(repo, "cmd", "scriggo", "linkdestination.go"))
	if err != nil {
		return "", err
	}
	for name := range lfPinned {
		if err := g.pinned(name, "", lfPinned); err != nil {
			return "", err
		}
	}
	var out strings.Builder
	out.WriteString("import ScriggoV.Basic.Bytes\n/-! The conditions of isFenceStart, isFenceClose and isIndentedCode (cmd/scriggo/linkdestination.go). -/\nnamespace ScriggoV.Gen.LinkDestFence\nopen ScriggoV\n\n")
	ints := []lfVar{{"width", "width", "nat"}, {"pos", "pos", "nat"}, {"len(line)", "len", "nat"}, {"run", "run", "nat"}}
	err = lfFunc(g, &out, "isFenceStart", "func(line []byte) (ok bool, fenceChar byte, fenceLen int)",
		append([]lfVar{{"c", "c", "byte"}, {"line[pos+run:]", "info", "bytes"}}, ints...),
		[]lfStep{
			{exact: "width, pos := util.IndentWidth(line, 0)"},
			{def: "startRejectIndent", body: "{ return false, 0, 0 }", params: "(width pos len : Nat)"},
			{exact: "c := line[pos]"},
			{def: "startRejectChar", body: "{ return false, 0, 0 }", params: "(c : UInt8)"},
			{exact: "run := countRun(line, pos, c)"},
			{def: "startRejectRun", body: "{ return false, 0, 0 }", params: "(run : Nat)"},
			{def: "startRejectInfo", body: "{ return false, 0, 0 }", params: "(c : UInt8) (info : Bytes)"},
			{exact: "return true, c, run"},
		})
	if err != nil {
		return "", err
	}
	err = lfFunc(g, &out, "isFenceClose", "func(line []byte, fenceChar byte, fenceLen int) bool",
		append([]lfVar{{"fenceLen", "fenceLen", "nat"}, {"fenceChar", "fenceChar", "byte"}}, ints...),
		[]lfStep{
			{exact: "width, pos := util.IndentWidth(line, 0)"},
			{def: "closeRejectIndent", body: "{ return false }", params: "(width pos len : Nat)"},
			{exact: "run := countRun(line, pos, fenceChar)"},
			{def: "closeRejectRun", body: "{ return false }", params: "(run fenceLen : Nat)"},
			{exact: "return util.IsBlank(line[pos+run:])"},
		})
	if err != nil {
		return "", err
	}
	err = lfFunc(g, &out, "isIndentedCode", "func(line []byte) bool",
		[]lfVar{{"width", "width", "nat"}, {"util.IsBlank(line)", "blank", "bool"}},
		[]lfStep{
			{exact: "width, _ := util.IndentWidth(line, 0)"},
			{def: "indentedCode", body: "return", params: "(width : Nat) (blank : Bool)"},
		})
	if err != nil {
		return "", err
	}
	out.WriteString("end ScriggoV.Gen.LinkDestFence\n")
	return out.String(), nil
}
