package main

// Generator "BuiltinTables" (property C25): re-reads /repo/builtin/builtin.go and emits
// lean/ScriggoV/Gen/BuiltinTables.lean with
//   - lookupJSONSpace as a list with its real length (so that indexing can fault in the model),
//   - the condition of onlyJSONWhitespace's loop body, and init / loop conditions / slice bounds
//     of trimJSONSpace as checked (faulting) expressions over the combinators of Basic/GoExpr.lean,
//   - QueryEscape's unreserved-byte predicate and its hexchars table,
//   - Abbreviate's `spaces` constant.
// Only the shapes spelled out below are accepted; anything else is "shape not recognised".

import (
	"bytes"
	"fmt"
	"go/ast"
	"go/parser"
	"go/printer"
	"go/token"
	"path/filepath"
	"strconv"
	"strings"
)

func init() {
	generators = append(generators, generator{name: "BuiltinTables", run: genBuiltinTables})
}

type btGen struct {
	fset *token.FileSet
	file *ast.File
}

func (g *btGen) src(n ast.Node) string {
	var b bytes.Buffer
	printer.Fprint(&b, g.fset, n)
	return strings.Join(strings.Fields(b.String()), " ")
}

func (g *btGen) errf(n ast.Node, format string, a ...any) error {
	return fmt.Errorf("shape not recognised: %s (at %s: %s)", fmt.Sprintf(format, a...), g.fset.Position(n.Pos()), g.src(n))
}

func (g *btGen) fn(name string) (*ast.FuncDecl, error) {
	for _, d := range g.file.Decls {
		if f, ok := d.(*ast.FuncDecl); ok && f.Recv == nil && f.Name.Name == name && f.Body != nil {
			return f, nil
		}
	}
	return nil, fmt.Errorf("shape not recognised: func %s not found", name)
}

// intLit evaluates an integer or character literal.
func (g *btGen) intLit(e ast.Expr) (int64, bool) {
	switch e := e.(type) {
	case *ast.ParenExpr:
		return g.intLit(e.X)
	case *ast.BasicLit:
		switch e.Kind {
		case token.INT:
			v, err := strconv.ParseInt(e.Value, 0, 64)
			return v, err == nil
		case token.CHAR:
			s, err := strconv.Unquote(e.Value)
			if err != nil {
				return 0, false
			}
			r := []rune(s)
			if len(r) != 1 {
				return 0, false
			}
			return int64(r[0]), true
		}
	}
	return 0, false
}

func (g *btGen) stringConst(f *ast.FuncDecl, name string) ([]byte, error) {
	var out []byte
	found := 0
	var err error
	ast.Inspect(f.Body, func(n ast.Node) bool {
		d, ok := n.(*ast.GenDecl)
		if !ok || d.Tok != token.CONST {
			return true
		}
		for _, sp := range d.Specs {
			vs := sp.(*ast.ValueSpec)
			for i, id := range vs.Names {
				if id.Name != name {
					continue
				}
				found++
				if vs.Type != nil || i >= len(vs.Values) {
					err = g.errf(vs, "const %s is not an untyped string literal", name)
					return false
				}
				lit, ok := vs.Values[i].(*ast.BasicLit)
				if !ok || lit.Kind != token.STRING {
					err = g.errf(vs, "const %s is not a string literal", name)
					return false
				}
				s, e := strconv.Unquote(lit.Value)
				if e != nil {
					err = g.errf(vs, "const %s: %v", name, e)
					return false
				}
				out = []byte(s)
			}
		}
		return true
	})
	if err != nil {
		return nil, err
	}
	if found != 1 {
		return nil, fmt.Errorf("shape not recognised: const %s declared %d times in %s", name, found, f.Name.Name)
	}
	return out, nil
}

func btLeanBytes(b []byte) string {
	parts := make([]string, len(b))
	for i, c := range b {
		parts[i] = strconv.Itoa(int(c))
	}
	return "[" + strings.Join(parts, ", ") + "]"
}

// ---- pure byte predicates (QueryEscape's unreserved test) ----

// bytePred translates a side-effect-free boolean expression over the single byte variable v.
func (g *btGen) bytePred(e ast.Expr, v string) (string, error) {
	switch e := e.(type) {
	case *ast.ParenExpr:
		return g.bytePred(e.X, v)
	case *ast.BinaryExpr:
		switch e.Op {
		case token.LAND, token.LOR:
			l, err := g.bytePred(e.X, v)
			if err != nil {
				return "", err
			}
			r, err := g.bytePred(e.Y, v)
			if err != nil {
				return "", err
			}
			op := "&&"
			if e.Op == token.LOR {
				op = "||"
			}
			return "(" + l + " " + op + " " + r + ")", nil
		case token.LEQ, token.LSS, token.GEQ, token.GTR, token.EQL, token.NEQ:
			operand := func(x ast.Expr) (string, error) {
				if id, ok := x.(*ast.Ident); ok && id.Name == v {
					return "c", nil
				}
				if k, ok := g.intLit(x); ok && 0 <= k && k <= 255 {
					return fmt.Sprintf("(%d : UInt8)", k), nil
				}
				return "", g.errf(x, "operand is neither %s nor a byte literal", v)
			}
			l, err := operand(e.X)
			if err != nil {
				return "", err
			}
			r, err := operand(e.Y)
			if err != nil {
				return "", err
			}
			switch e.Op {
			case token.LEQ:
				return "decide (" + l + " ≤ " + r + ")", nil
			case token.LSS:
				return "decide (" + l + " < " + r + ")", nil
			case token.GEQ:
				return "decide (" + r + " ≤ " + l + ")", nil
			case token.GTR:
				return "decide (" + r + " < " + l + ")", nil
			case token.EQL:
				return "(" + l + " == " + r + ")", nil
			default:
				return "(" + l + " != " + r + ")", nil
			}
		}
	}
	return "", g.errf(e, "not a byte predicate")
}

// ---- checked expressions (onlyJSONWhitespace / trimJSONSpace) ----

type btEnv struct {
	bytesVar string          // the Go name of the string/slice parameter; Lean name is always `data`
	ints     map[string]bool // int variables in scope (Lean names are the same)
	tables   map[string]bool // package-level byte tables
	bools    map[string]bool // bool variables in scope (Lean names are the same)
	runesVar string          // the Go name of a []rune variable; Lean name is always `runes`
}

const (
	btInt = iota
	btByte
	btBool
	btLit // an untyped integer literal: takes the type of the other operand
	btRune
)

// unicodeFns are the functions of package unicode the models take as parameters (UnicodeFns).
var unicodeFns = map[string]string{"IsLower": "isLower", "IsUpper": "isUpper", "IsDigit": "isDigit", "IsLetter": "isLetter", "IsSpace": "isSpace"}

// checked translates e to a term of type `Except Fault _` over the GoExpr combinators.
func (g *btGen) checked(e ast.Expr, env *btEnv) (string, int, error) {
	switch e := e.(type) {
	case *ast.ParenExpr:
		return g.checked(e.X, env)
	case *ast.Ident:
		if env.ints[e.Name] {
			return "(gInt " + e.Name + ")", btInt, nil
		}
		if env.bools[e.Name] {
			return "(gBool " + e.Name + ")", btBool, nil
		}
	case *ast.BasicLit:
		if k, ok := g.intLit(e); ok {
			return strconv.FormatInt(k, 10), btLit, nil
		}
	case *ast.CallExpr:
		if id, ok := e.Fun.(*ast.Ident); ok && id.Name == "len" && len(e.Args) == 1 {
			if a, ok := e.Args[0].(*ast.Ident); ok && a.Name == env.bytesVar {
				return "(gLen data)", btInt, nil
			}
		}
		if sel, ok := e.Fun.(*ast.SelectorExpr); ok && btIsIdent(sel.X, "unicode") && unicodeFns[sel.Sel.Name] != "" && len(e.Args) == 1 {
			arg, t, err := g.checked(e.Args[0], env)
			if err != nil {
				return "", 0, err
			}
			if t != btRune {
				return "", 0, g.errf(e, "argument of unicode.%s is not a rune", sel.Sel.Name)
			}
			return "(gU U." + unicodeFns[sel.Sel.Name] + " " + arg + ")", btBool, nil
		}
	case *ast.IndexExpr:
		x, ok := e.X.(*ast.Ident)
		if !ok {
			break
		}
		idx, t, err := g.checked(e.Index, env)
		if err != nil {
			return "", 0, err
		}
		if env.runesVar != "" && x.Name == env.runesVar {
			if t == btLit {
				idx, t = "(gInt "+idx+")", btInt
			}
			if t != btInt {
				return "", 0, g.errf(e, "index of %s is not an int", x.Name)
			}
			return "(gIdxR runes " + idx + ")", btRune, nil
		}
		if x.Name == env.bytesVar {
			if t == btLit {
				idx, t = "(gInt "+idx+")", btInt
			}
			if t != btInt {
				return "", 0, g.errf(e, "index of %s is not an int", x.Name)
			}
			return "(gIdx data " + idx + ")", btByte, nil
		}
		if env.tables[x.Name] {
			if t != btByte {
				return "", 0, g.errf(e, "index of table %s is not a byte", x.Name)
			}
			return "(gTbl " + x.Name + " " + idx + ")", btByte, nil
		}
	case *ast.BinaryExpr:
		l, lt, err := g.checked(e.X, env)
		if err != nil {
			return "", 0, err
		}
		r, rt, err := g.checked(e.Y, env)
		if err != nil {
			return "", 0, err
		}
		lit := func(s string, t int) string {
			if t == btByte {
				return "(gByte " + s + ")"
			}
			return "(gInt " + s + ")"
		}
		for _, side := range [][2]any{{l, lt}, {r, rt}} {
			// a literal compared with a byte must be a byte value (Lean's UInt8 literals wrap silently)
			if k, err := strconv.ParseInt(side[0].(string), 10, 64); side[1].(int) == btLit && (lt == btByte || rt == btByte) && (err != nil || k < 0 || k > 255) {
				return "", 0, g.errf(e, "literal compared with a byte is outside 0..255")
			}
		}
		// give literals the type of the other side
		if lt == btLit && rt == btLit {
			lt, rt, l, r = btInt, btInt, lit(l, btInt), lit(r, btInt)
		} else if lt == btLit {
			lt, l = rt, lit(l, rt)
		} else if rt == btLit {
			rt, r = lt, lit(r, lt)
		}
		switch e.Op {
		case token.LAND, token.LOR:
			if lt != btBool || rt != btBool {
				break
			}
			if e.Op == token.LAND {
				return "(gAnd " + l + " " + r + ")", btBool, nil
			}
			return "(gOr " + l + " " + r + ")", btBool, nil
		case token.ADD, token.SUB:
			if lt != btInt || rt != btInt {
				break
			}
			if e.Op == token.ADD {
				return "(gAdd " + l + " " + r + ")", btInt, nil
			}
			return "(gSub " + l + " " + r + ")", btInt, nil
		case token.EQL, token.NEQ:
			if lt != rt || lt == btBool {
				break
			}
			f := map[int]string{btInt: "gEqI", btByte: "gEqB"}[lt]
			if e.Op == token.NEQ {
				return "(gNot (" + f + " " + l + " " + r + "))", btBool, nil
			}
			return "(" + f + " " + l + " " + r + ")", btBool, nil
		case token.LSS, token.LEQ, token.GTR, token.GEQ:
			if lt != btInt || rt != btInt {
				break
			}
			switch e.Op {
			case token.LSS:
				return "(gLtI " + l + " " + r + ")", btBool, nil
			case token.LEQ:
				return "(gLeI " + l + " " + r + ")", btBool, nil
			case token.GTR:
				return "(gLtI " + r + " " + l + ")", btBool, nil // operands are pure or fault in either order
			default:
				return "(gLeI " + r + " " + l + ")", btBool, nil
			}
		}
	}
	return "", 0, g.errf(e, "expression outside the translated fragment")
}

func (g *btGen) checkedBool(e ast.Expr, env *btEnv) (string, error) {
	s, t, err := g.checked(e, env)
	if err != nil {
		return "", err
	}
	if t != btBool {
		return "", g.errf(e, "not a boolean expression")
	}
	return s, nil
}

// pureInt translates an int expression without any index (init values, slice bounds).
func (g *btGen) pureInt(e ast.Expr, env *btEnv) (string, error) {
	switch e := e.(type) {
	case *ast.ParenExpr:
		return g.pureInt(e.X, env)
	case *ast.Ident:
		if env.ints[e.Name] {
			return e.Name, nil
		}
	case *ast.BasicLit:
		if k, ok := g.intLit(e); ok {
			return fmt.Sprintf("(%d : Int)", k), nil
		}
	case *ast.CallExpr:
		if id, ok := e.Fun.(*ast.Ident); ok && id.Name == "len" && len(e.Args) == 1 {
			if a, ok := e.Args[0].(*ast.Ident); ok && a.Name == env.bytesVar {
				return "(data.length : Int)", nil
			}
		}
	case *ast.BinaryExpr:
		if e.Op == token.ADD || e.Op == token.SUB {
			l, err := g.pureInt(e.X, env)
			if err != nil {
				return "", err
			}
			r, err := g.pureInt(e.Y, env)
			if err != nil {
				return "", err
			}
			return "(" + l + " " + e.Op.String() + " " + r + ")", nil
		}
	}
	return "", g.errf(e, "not a pure int expression")
}

func btSingleParam(f *ast.FuncDecl) (string, bool) {
	if f.Type.Params == nil || len(f.Type.Params.List) != 1 || len(f.Type.Params.List[0].Names) != 1 {
		return "", false
	}
	return f.Type.Params.List[0].Names[0].Name, true
}

func btIsIdent(e ast.Expr, name string) bool {
	id, ok := e.(*ast.Ident)
	return ok && id.Name == name
}

func genBuiltinTables(repo string) (string, error) {
	g := &btGen{fset: token.NewFileSet()}
	var err error
	g.file, err = parser.ParseFile(g.fset, filepath.Join(repo, "builtin", "builtin.go"), nil, 0)
	if err != nil {
		return "", err
	}
	var out strings.Builder
	out.WriteString("import ScriggoV.Basic.Bytes\nimport ScriggoV.Basic.GoExpr\n")
	out.WriteString("/-! Definitions regenerated from /repo/builtin/builtin.go (lookupJSONSpace, onlyJSONWhitespace,\n")
	out.WriteString("trimJSONSpace, QueryEscape, Abbreviate). -/\n")
	out.WriteString("set_option linter.unusedVariables false\nnamespace ScriggoV.Gen.BuiltinTables\nopen ScriggoV ScriggoV.GoExpr\n\n")

	// 1. var lookupJSONSpace = [N]uint8{k: v, ...}
	var table []byte
	found := 0
	for _, d := range g.file.Decls {
		gd, ok := d.(*ast.GenDecl)
		if !ok || gd.Tok != token.VAR {
			continue
		}
		for _, sp := range gd.Specs {
			vs := sp.(*ast.ValueSpec)
			for i, id := range vs.Names {
				if id.Name != "lookupJSONSpace" {
					continue
				}
				found++
				if vs.Type != nil || i >= len(vs.Values) {
					return "", g.errf(vs, "lookupJSONSpace is not `var lookupJSONSpace = [N]uint8{...}`")
				}
				cl, ok := vs.Values[i].(*ast.CompositeLit)
				if !ok {
					return "", g.errf(vs, "lookupJSONSpace is not a composite literal")
				}
				at, ok := cl.Type.(*ast.ArrayType)
				if !ok || at.Len == nil || !btIsIdent(at.Elt, "uint8") && !btIsIdent(at.Elt, "byte") {
					return "", g.errf(cl.Type, "lookupJSONSpace is not an array of uint8 with a length")
				}
				n, ok := g.intLit(at.Len)
				if !ok || n < 0 || n > 4096 {
					return "", g.errf(at.Len, "array length is not a small integer literal")
				}
				table = make([]byte, n)
				for _, el := range cl.Elts {
					kv, ok := el.(*ast.KeyValueExpr)
					if !ok {
						return "", g.errf(el, "element without a key")
					}
					k, ok1 := g.intLit(kv.Key)
					v, ok2 := g.intLit(kv.Value)
					if !ok1 || !ok2 || v < 0 || v > 255 {
						return "", g.errf(el, "key/value are not literals")
					}
					if k < 0 || k >= n {
						return "", g.errf(el, "key outside the array (gc rejects this)")
					}
					table[k] = byte(v)
				}
			}
		}
	}
	if found != 1 {
		return "", fmt.Errorf("shape not recognised: lookupJSONSpace declared %d times", found)
	}
	fmt.Fprintf(&out, "/-- `len(lookupJSONSpace)` as declared in builtin.go -/\ndef lookupJSONSpaceLen : Nat := %d\n\n", len(table))
	fmt.Fprintf(&out, "/-- the table itself, %d entries -/\ndef lookupJSONSpace : List UInt8 :=\n  %s\n\n", len(table), btLeanBytes(table))
	tables := map[string]bool{"lookupJSONSpace": true}

	// 2. onlyJSONWhitespace: for i := 0; i < len(s); i++ { if COND { return false } }; return true
	{
		f, err := g.fn("onlyJSONWhitespace")
		if err != nil {
			return "", err
		}
		p, ok := btSingleParam(f)
		if !ok || len(f.Body.List) != 2 {
			return "", g.errf(f, "onlyJSONWhitespace: one parameter, two statements expected")
		}
		loop, ok := f.Body.List[0].(*ast.ForStmt)
		if !ok || loop.Init == nil || loop.Cond == nil || loop.Post == nil ||
			g.src(loop.Init) != "i := 0" || g.src(loop.Cond) != "i < len("+p+")" || g.src(loop.Post) != "i++" ||
			len(loop.Body.List) != 1 {
			return "", g.errf(f.Body.List[0], "onlyJSONWhitespace: loop header is not `for i := 0; i < len(%s); i++` with one statement", p)
		}
		ifs, ok := loop.Body.List[0].(*ast.IfStmt)
		if !ok || ifs.Init != nil || ifs.Else != nil || len(ifs.Body.List) != 1 || g.src(ifs.Body.List[0]) != "return false" {
			return "", g.errf(loop.Body.List[0], "onlyJSONWhitespace: loop body is not `if COND { return false }`")
		}
		if g.src(f.Body.List[1]) != "return true" {
			return "", g.errf(f.Body.List[1], "onlyJSONWhitespace: last statement is not `return true`")
		}
		cond, err := g.checkedBool(ifs.Cond, &btEnv{bytesVar: p, ints: map[string]bool{"i": true}, tables: tables})
		if err != nil {
			return "", err
		}
		fmt.Fprintf(&out, "/-- onlyJSONWhitespace, loop body: `if %s { return false }` (the frame `for i := 0; i < len(%s); i++ … return true` was checked) -/\n", g.src(ifs.Cond), p)
		fmt.Fprintf(&out, "def onlyWSStop (data : Bytes) (i : Int) : Except Fault Bool :=\n  %s\n\n", cond)
	}

	// 3. trimJSONSpace
	{
		f, err := g.fn("trimJSONSpace")
		if err != nil {
			return "", err
		}
		p, ok := btSingleParam(f)
		if !ok || len(f.Body.List) != 5 {
			return "", g.errf(f, "trimJSONSpace: one parameter, five statements expected")
		}
		st := f.Body.List
		if g.src(st[0]) != "if len("+p+") == 0 { return "+p+" }" {
			return "", g.errf(st[0], "trimJSONSpace: first statement is not `if len(%s) == 0 { return %s }`", p, p)
		}
		as, ok := st[1].(*ast.AssignStmt)
		if !ok || as.Tok != token.DEFINE || len(as.Lhs) != 2 || len(as.Rhs) != 2 || !btIsIdent(as.Lhs[0], "i") || !btIsIdent(as.Lhs[1], "j") {
			return "", g.errf(st[1], "trimJSONSpace: second statement is not `i, j := E1, E2`")
		}
		env0 := &btEnv{bytesVar: p, ints: map[string]bool{}, tables: tables}
		env := &btEnv{bytesVar: p, ints: map[string]bool{"i": true, "j": true}, tables: tables}
		i0, err := g.pureInt(as.Rhs[0], env0)
		if err != nil {
			return "", err
		}
		j0, err := g.pureInt(as.Rhs[1], env0)
		if err != nil {
			return "", err
		}
		conds := [2]string{}
		for k, post := range []string{"i++", "j--"} {
			loop, ok := st[2+k].(*ast.ForStmt)
			if !ok || loop.Init != nil || loop.Cond == nil || loop.Post == nil || g.src(loop.Post) != post || len(loop.Body.List) != 0 {
				return "", g.errf(st[2+k], "trimJSONSpace: statement %d is not `for ; COND; %s { }`", 3+k, post)
			}
			conds[k], err = g.checkedBool(loop.Cond, env)
			if err != nil {
				return "", err
			}
			fmt.Fprintf(&out, "/-- trimJSONSpace, loop %d: `for ; %s; %s {}` -/\n", k+1, g.src(loop.Cond), post)
			fmt.Fprintf(&out, "def trimCond%d (data : Bytes) (i j : Int) : Except Fault Bool :=\n  %s\n\n", k+1, conds[k])
		}
		ret, ok := st[4].(*ast.ReturnStmt)
		if !ok || len(ret.Results) != 1 {
			return "", g.errf(st[4], "trimJSONSpace: last statement is not a return of one value")
		}
		sl, ok := ret.Results[0].(*ast.SliceExpr)
		if !ok || sl.Slice3 || sl.Low == nil || sl.High == nil || !btIsIdent(sl.X, p) {
			return "", g.errf(st[4], "trimJSONSpace: result is not `%s[LO:HI]`", p)
		}
		lo, err := g.pureInt(sl.Low, env)
		if err != nil {
			return "", err
		}
		hi, err := g.pureInt(sl.High, env)
		if err != nil {
			return "", err
		}
		fmt.Fprintf(&out, "/-- trimJSONSpace: `%s` -/\n", g.src(as))
		fmt.Fprintf(&out, "def trimInitI (data : Bytes) : Int := %s\ndef trimInitJ (data : Bytes) : Int := %s\n\n", i0, j0)
		fmt.Fprintf(&out, "/-- trimJSONSpace: `%s` -/\n", g.src(ret))
		fmt.Fprintf(&out, "def trimLo (data : Bytes) (i j : Int) : Int := %s\ndef trimHi (data : Bytes) (i j : Int) : Int := %s\n\n", lo, hi)
	}

	// 4. QueryEscape: const hexchars, the unreserved test (twice, identical)
	{
		f, err := g.fn("QueryEscape")
		if err != nil {
			return "", err
		}
		hexchars, err := g.stringConst(f, "hexchars")
		if err != nil {
			return "", err
		}
		var conds []ast.Expr
		ast.Inspect(f.Body, func(n ast.Node) bool {
			if ifs, ok := n.(*ast.IfStmt); ok {
				if be, ok := ifs.Cond.(*ast.BinaryExpr); ok && be.Op == token.LOR {
					conds = append(conds, ifs.Cond)
				}
			}
			return true
		})
		if len(conds) != 2 || g.src(conds[0]) != g.src(conds[1]) {
			return "", g.errf(f.Name, "QueryEscape: expected the same `||` test of the byte c in both passes, found %d", len(conds))
		}
		pred, err := g.bytePred(conds[0], "c")
		if err != nil {
			return "", err
		}
		fmt.Fprintf(&out, "/-- QueryEscape: `const hexchars = %q` -/\ndef hexchars : Bytes := %s\n\n", hexchars, btLeanBytes(hexchars))
		fmt.Fprintf(&out, "/-- QueryEscape: bytes copied unchanged, the test used identically in both passes:\n`%s` -/\n", g.src(conds[0]))
		fmt.Fprintf(&out, "def unreserved (c : UInt8) : Bool :=\n  %s\n\n", pred)
	}

	// 5. Abbreviate: const spaces
	{
		f, err := g.fn("Abbreviate")
		if err != nil {
			return "", err
		}
		spaces, err := g.stringConst(f, "spaces")
		if err != nil {
			return "", err
		}
		for _, c := range spaces {
			if c >= 0x80 {
				return "", fmt.Errorf("shape not recognised: Abbreviate's spaces constant is not ASCII (the model of strings.TrimRight/LastIndexAny is byte-wise)")
			}
		}
		fmt.Fprintf(&out, "/-- Abbreviate: `const spaces = %q` -/\ndef abbrSpaces : Bytes := %s\n\n", spaces, btLeanBytes(spaces))
	}
	out.WriteString("end ScriggoV.Gen.BuiltinTables\n")
	return out.String(), nil
}
