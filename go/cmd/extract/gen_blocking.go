package main

// Generator "Blocking" (property C11): the cancellation facts of internal/runtime/run.go.
//
//   blockingOps   for every `case OpX:` clause of (*VM).run's instruction switch that calls
//                 reflect.Value.Recv / Send or reflect.Select: the opcode, the calls, and whether
//                 every such call is either in the then-branch of `if done == nil [|| extra]`
//                 (the run has no cancellable context) or in the else-branch, where vm.env.doneCase
//                 is appended to vm.cases, the call is reflect.Select(vm.cases), and choosing the
//                 done case does `return vm.stop()`;
//   loopHeadCheck the first statement of run's instruction loop is
//                 `if done != nil && atomic.LoadInt32(&vm.env.done) == 1 { return vm.stop() }`
//                 with `done := vm.env.doneChan`;
//   hasDefaultCaseValues  the values assigned to the variable of the extra disjunct;
//   watcherSetsDone / rereadsDoneAfterFinish / ctxErrBeforePanic  the shape of runFunc;
//   stopSetsDone  vm.stop stores 1 into env.done;
//   blockingCallsOutsideRun  Recv/Send/Select calls of the package outside (*VM).run;
//   fastPathGuards  for every direct Recv/Send/Select call (no done case) the whole condition under
//                 which it is made;
//   doneCheckSites  every place of (*VM).run where the flag test
//                 `if done != nil && atomic.LoadInt32(&vm.env.done) == 1 { return vm.stop() }` stands:
//                 "loop-head" (first statement of the instruction loop), "OpX" (first statement of the
//                 clause of OpX, so executed on every dispatch of OpX), "inside OpX" (anywhere else in
//                 that clause: conditional, counts for nothing);
//   opFlow        for every clause of the instruction switch how it moves the program counter: does it
//                 assign vm.pc (`vm.pc = …`), only advance it (`vm.pc++`, `vm.pc += k`), change vm.fn,
//                 run a nested activation of the loop (`vm.run()`), leave the activation (a `return`
//                 other than `return vm.stop()`), call vm.nextCall(); and whether the clause starts
//                 with the flag test.
//
// A shape that is different yields `false` in the corresponding fact (so that the Lean obligation
// fails and names it); only a missing function is an error.

import (
	"fmt"
	"go/ast"
	"go/parser"
	"go/token"
	"os"
	"path/filepath"
	"sort"
	"strings"
)

func init() {
	generators = append(generators, generator{name: "Blocking", run: genBlocking})
}

type blOp struct {
	op        string
	calls     []string
	doneCase  bool
	extra     string
	chosenIdx string
	fast      [][2]string // the direct calls (no done case): which call, under which guard
}

func blText(fset *token.FileSet, n ast.Node) string { return swText(fset, n) }

func blIsDoneNil(fset *token.FileSet, e ast.Expr) (ok bool, extra string) {
	// `done == nil` or `done == nil || X`
	if b, isBin := e.(*ast.BinaryExpr); isBin {
		if b.Op == token.EQL && blText(fset, b.X) == "done" && blText(fset, b.Y) == "nil" {
			return true, ""
		}
		if b.Op == token.LOR {
			if ok, ex := blIsDoneNil(fset, b.X); ok && ex == "" {
				return true, blText(fset, b.Y)
			}
		}
	}
	return false, ""
}

func blBlockingCall(fset *token.FileSet, c *ast.CallExpr) string {
	sel, ok := c.Fun.(*ast.SelectorExpr)
	if !ok {
		return ""
	}
	switch sel.Sel.Name {
	case "Recv", "Send":
		return sel.Sel.Name
	case "Select":
		if blText(fset, sel.X) == "reflect" {
			return "Select"
		}
	}
	return ""
}

// blCtxPath checks the else-branch shape around a reflect.Select call: the statements of block,
// in order, contain `vm.cases = append(vm.cases, …, vm.env.doneCase)`, then an assignment whose
// right-hand side is `reflect.Select(vm.cases)`, then `if chosen == <idx> { return vm.stop() }`.
func blCtxPath(fset *token.FileSet, block *ast.BlockStmt) (ok bool, idx string) {
	stage := 0
	appended := 0
	for _, st := range block.List {
		switch stage {
		case 0:
			if as, isAs := st.(*ast.AssignStmt); isAs && len(as.Lhs) == 1 && len(as.Rhs) == 1 && blText(fset, as.Lhs[0]) == "vm.cases" {
				if c, isCall := as.Rhs[0].(*ast.CallExpr); isCall && blText(fset, c.Fun) == "append" && len(c.Args) >= 2 &&
					blText(fset, c.Args[0]) == "vm.cases" && blText(fset, c.Args[len(c.Args)-1]) == "vm.env.doneCase" {
					appended = len(c.Args) - 1
					stage = 1
				}
			}
		case 1:
			if as, isAs := st.(*ast.AssignStmt); isAs && len(as.Rhs) == 1 && blText(fset, as.Rhs[0]) == "reflect.Select(vm.cases)" &&
				len(as.Lhs) == 3 && blText(fset, as.Lhs[0]) == "chosen" {
				stage = 2
			} else {
				return false, ""
			}
		case 2:
			ifs, isIf := st.(*ast.IfStmt)
			if !isIf || ifs.Else != nil || len(ifs.Body.List) != 1 {
				return false, ""
			}
			b, isBin := ifs.Cond.(*ast.BinaryExpr)
			if !isBin || b.Op != token.EQL || blText(fset, b.X) != "chosen" {
				return false, ""
			}
			if blText(fset, ifs.Body.List[0]) != "return vm.stop()" {
				return false, ""
			}
			idx = blText(fset, b.Y)
			// the done case is the last one: index = number of cases before it
			if !(idx == "numCase" && appended == 1) && idx != fmt.Sprint(appended-1) {
				return false, idx
			}
			return true, idx
		}
	}
	return false, ""
}

func genBlocking(repo string) (string, error) {
	fset := token.NewFileSet()
	dir := filepath.Join(repo, "internal", "runtime")
	ents, err := os.ReadDir(dir)
	if err != nil {
		return "", err
	}
	var files []*ast.File
	for _, e := range ents {
		n := e.Name()
		if e.IsDir() || !strings.HasSuffix(n, ".go") || strings.HasSuffix(n, "_test.go") {
			continue
		}
		f, err := parser.ParseFile(fset, filepath.Join(dir, n), nil, parser.ParseComments)
		if err != nil {
			return "", err
		}
		if swIsVerifFile(f) {
			continue
		}
		files = append(files, f)
	}
	var runFn, runFuncFn, stopFn *ast.FuncDecl
	var outside []string
	for _, f := range files {
		for _, d := range f.Decls {
			fd, ok := d.(*ast.FuncDecl)
			if !ok || fd.Body == nil {
				continue
			}
			isVM := fd.Recv != nil && len(fd.Recv.List) == 1 && blText(fset, fd.Recv.List[0].Type) == "*VM"
			switch {
			case isVM && fd.Name.Name == "run":
				runFn = fd
			case isVM && fd.Name.Name == "runFunc":
				runFuncFn = fd
			case isVM && fd.Name.Name == "stop":
				stopFn = fd
			}
			if !(isVM && fd.Name.Name == "run") {
				ast.Inspect(fd.Body, func(n ast.Node) bool {
					if c, ok := n.(*ast.CallExpr); ok {
						if k := blBlockingCall(fset, c); k != "" {
							outside = append(outside, swFuncName(fd, fset)+": "+blText(fset, c))
						}
					}
					return true
				})
			}
		}
	}
	if runFn == nil || runFuncFn == nil || stopFn == nil {
		return "", fmt.Errorf("shape not recognised: (*VM).run, (*VM).runFunc or (*VM).stop not found in internal/runtime")
	}

	// run: `done := vm.env.doneChan`, the instruction loop and its head test, the switch
	doneIsChan := false
	var loop *ast.ForStmt
	for _, st := range runFn.Body.List {
		if as, ok := st.(*ast.AssignStmt); ok && as.Tok == token.DEFINE && len(as.Lhs) == 1 && blText(fset, as.Lhs[0]) == "done" {
			doneIsChan = blText(fset, as.Rhs[0]) == "vm.env.doneChan"
		}
		if f, ok := st.(*ast.ForStmt); ok && f.Init == nil && f.Cond == nil && f.Post == nil && loop == nil {
			loop = f
		}
	}
	if loop == nil {
		return "", fmt.Errorf("shape not recognised: (*VM).run has no `for { … }` instruction loop")
	}
	loopHead := false
	if len(loop.Body.List) > 0 {
		if ifs, ok := loop.Body.List[0].(*ast.IfStmt); ok && ifs.Else == nil && ifs.Init == nil {
			cond := blText(fset, ifs.Cond)
			body := ""
			if len(ifs.Body.List) == 1 {
				body = blText(fset, ifs.Body.List[0])
			}
			loopHead = doneIsChan && cond == "done != nil && atomic.LoadInt32(&vm.env.done) == 1" && body == "return vm.stop()"
		}
	}
	var sw *ast.SwitchStmt
	for _, st := range loop.Body.List {
		if s, ok := st.(*ast.SwitchStmt); ok && s.Tag != nil && blText(fset, s.Tag) == "op" {
			sw = s
		}
	}
	if sw == nil {
		return "", fmt.Errorf("shape not recognised: (*VM).run has no `switch op` in its loop")
	}
	// `done` must not be re-assigned anywhere in run
	ast.Inspect(runFn.Body, func(n ast.Node) bool {
		if as, ok := n.(*ast.AssignStmt); ok && as.Tok != token.DEFINE {
			for _, l := range as.Lhs {
				if blText(fset, l) == "done" {
					doneIsChan = false
				}
			}
		}
		return true
	})

	var ops []blOp
	extras := map[string]bool{}
	for _, cl := range sw.Body.List {
		cc := cl.(*ast.CaseClause)
		var names []string
		for _, e := range cc.List {
			t := blText(fset, e)
			if !strings.HasPrefix(t, "-") {
				names = append(names, t)
			}
		}
		// collect the blocking calls of this clause together with their guarding if statements
		type found struct {
			kind  string
			good  bool
			extra string
			idx   string
			guard string // for a direct call: the whole condition under which it is made ("" = unconditionally)
			fast  bool
		}
		var calls []found
		var walk func(n ast.Node, guard *ast.IfStmt, inElse bool)
		walk = func(n ast.Node, guard *ast.IfStmt, inElse bool) {
			ast.Inspect(n, func(m ast.Node) bool {
				switch x := m.(type) {
				case *ast.IfStmt:
					if ok, _ := blIsDoneNil(fset, x.Cond); ok {
						if x.Init != nil {
							walk(x.Init, guard, inElse)
						}
						walk(x.Body, x, false)
						if x.Else != nil {
							walk(x.Else, x, true)
						}
						return false
					}
				case *ast.CallExpr:
					if k := blBlockingCall(fset, x); k != "" {
						f := found{kind: k}
						if guard == nil {
							f.fast = true
						}
						if guard != nil {
							_, f.extra = blIsDoneNil(fset, guard.Cond)
							if !inElse {
								f.good = true // only reached without a cancellable context (or when `extra` holds)
								f.fast, f.guard = true, blText(fset, guard.Cond)
							} else if els, ok := guard.Else.(*ast.BlockStmt); ok && k == "Select" {
								f.good, f.idx = blCtxPath(fset, els)
							}
						}
						calls = append(calls, f)
					}
				}
				return true
			})
		}
		for _, st := range cc.Body {
			walk(st, nil, false)
		}
		if len(calls) == 0 {
			continue
		}
		o := blOp{op: strings.Join(names, "|"), doneCase: true}
		hasCtxPath := false
		for _, f := range calls {
			o.calls = append(o.calls, f.kind)
			if f.fast {
				o.fast = append(o.fast, [2]string{f.kind, f.guard})
			}
			if !f.good {
				o.doneCase = false
			}
			if f.extra != "" {
				o.extra = f.extra
				extras[f.extra] = true
			}
			if f.idx != "" {
				o.chosenIdx = f.idx
				hasCtxPath = true
			}
		}
		if !hasCtxPath {
			o.doneCase = false
		}
		ops = append(ops, o)
	}
	sort.Slice(ops, func(i, j int) bool { return ops[i].op < ops[j].op })

	// where the flag test stands, and how every clause moves the program counter
	const flagTest = "if done != nil && atomic.LoadInt32(&vm.env.done) == 1 { return vm.stop() }"
	isFlagTest := func(st ast.Stmt) bool {
		ifs, ok := st.(*ast.IfStmt)
		return ok && ifs.Else == nil && ifs.Init == nil && blText(fset, ifs) == flagTest
	}
	var sites []string
	if loopHead {
		sites = append(sites, "loop-head")
	}
	for i, st := range loop.Body.List {
		if i > 0 && isFlagTest(st) {
			sites = append(sites, "inside the loop, after "+fmt.Sprint(i)+" statements")
		}
	}
	type flow struct {
		op                                                        string
		setsPC, bumpsPC, setsFn, nested, leaves, nextCall, checks bool
	}
	var flows []flow
	for _, cl := range sw.Body.List {
		cc := cl.(*ast.CaseClause)
		var names []string
		for _, e := range cc.List {
			t := blText(fset, e)
			if !strings.HasPrefix(t, "-") {
				names = append(names, t)
			}
		}
		if len(names) == 0 {
			continue // default clause
		}
		f := flow{op: strings.Join(names, "|")}
		for i, st := range cc.Body {
			if isFlagTest(st) {
				if i == 0 {
					f.checks = true
					sites = append(sites, f.op)
				} else {
					sites = append(sites, "inside "+f.op)
				}
			}
			ast.Inspect(st, func(n ast.Node) bool {
				switch x := n.(type) {
				case *ast.IfStmt:
					if x != st && isFlagTest(x) {
						sites = append(sites, "inside "+f.op)
					}
				case *ast.AssignStmt:
					for _, l := range x.Lhs {
						switch blText(fset, l) {
						case "vm.pc":
							if x.Tok == token.ASSIGN {
								f.setsPC = true
							} else {
								f.bumpsPC = true
							}
						case "vm.fn":
							f.setsFn = true
						}
					}
				case *ast.IncDecStmt:
					if blText(fset, x.X) == "vm.pc" {
						if x.Tok == token.INC {
							f.bumpsPC = true
						} else {
							f.setsPC = true
						}
					}
				case *ast.CallExpr:
					switch blText(fset, x.Fun) {
					case "vm.run":
						f.nested = true
					case "vm.nextCall":
						f.nextCall = true
					}
				case *ast.ReturnStmt:
					if blText(fset, x) != "return vm.stop()" {
						f.leaves = true
					}
				}
				return true
			})
		}
		flows = append(flows, f)
	}
	sort.Slice(flows, func(i, j int) bool { return flows[i].op < flows[j].op })

	// the values assigned to the extra disjunct's variable(s)
	var extraVals []string
	for ex := range extras {
		ast.Inspect(runFn.Body, func(n ast.Node) bool {
			switch x := n.(type) {
			case *ast.AssignStmt:
				for i, l := range x.Lhs {
					if blText(fset, l) == ex && i < len(x.Rhs) {
						extraVals = append(extraVals, ex+" = "+blText(fset, x.Rhs[i]))
					}
				}
			case *ast.ValueSpec:
				for i, id := range x.Names {
					if id.Name == ex && i < len(x.Values) {
						extraVals = append(extraVals, ex+" = "+blText(fset, x.Values[i]))
					}
				}
			}
			return true
		})
	}
	sort.Strings(extraVals)

	// runFunc: the watcher goroutine and the `stop` channel are created under one condition; the
	// epilogue that re-reads env.done is guarded by `stop != nil`
	watcher, reread, ctxBeforePanic := false, false, false
	watcherCond, stopCond, epilogueCond := "", "", ""
	for i, st := range runFuncFn.Body.List {
		ifs, ok := st.(*ast.IfStmt)
		if !ok {
			continue
		}
		cond := blText(fset, ifs.Cond)
		for _, inner := range ifs.Body.List {
			switch x := inner.(type) {
			case *ast.GoStmt:
				t := blText(fset, x.Call)
				if strings.Contains(t, "case <-vm.env.ctx.Done(): atomic.StoreInt32(&vm.env.done, 1)") && strings.Contains(t, "case <-stop:") {
					watcher = true
					watcherCond = cond
				}
			case *ast.AssignStmt:
				if len(x.Lhs) == 1 && blText(fset, x.Lhs[0]) == "stop" && strings.HasPrefix(blText(fset, x.Rhs[0]), "make(chan") {
					stopCond = cond
				}
			}
		}
		t := blText(fset, ifs.Body)
		if strings.Contains(t, "if atomic.LoadInt32(&vm.env.done) == 1 { return vm.env.ctx.Err() }") {
			epilogueCond = cond
			if strings.Contains(t, "close(stop)") {
				reread = true
			}
			for _, later := range runFuncFn.Body.List[i+1:] {
				if strings.HasPrefix(blText(fset, later), "if vm.panic != nil") {
					ctxBeforePanic = true
				}
			}
		}
	}
	// is `stop` assigned anywhere else?
	stopAssigns := 0
	ast.Inspect(runFuncFn.Body, func(n ast.Node) bool {
		if as, ok := n.(*ast.AssignStmt); ok {
			for _, l := range as.Lhs {
				if blText(fset, l) == "stop" {
					stopAssigns++
				}
			}
		}
		return true
	})
	// every VM of a run (main, go, callback) shares env; the epilogue applies to every one of them
	// iff the stop channel is created whenever the run has a cancellable context, nothing else
	epilogueEvery := reread && epilogueCond == "stop != nil" && stopCond == "vm.env.doneChan != nil" && watcherCond == stopCond && stopAssigns == 1
	stopSets := strings.Contains(blText(fset, stopFn.Body), "atomic.StoreInt32(&vm.env.done, 1)")
	sort.Strings(outside)

	var b strings.Builder
	b.WriteString("namespace ScriggoV.Gen.Blocking\n\n")
	b.WriteString("/-- an opcode whose implementation can block: the reflect calls it makes, whether each of them is either\nreached only without a cancellable context or made through reflect.Select with the done case\nappended and `return vm.stop()` when it is chosen, the extra disjunct of the guard, the index compared -/\n")
	b.WriteString("structure BlockingOp where\n  op : String\n  calls : List String\n  doneCase : Bool\n  extra : String\n  chosenIdx : String\nderiving DecidableEq, Repr\n\n")
	b.WriteString("def blockingOps : List BlockingOp := [")
	for i, o := range ops {
		if i > 0 {
			b.WriteString(",")
		}
		var cs []string
		for _, c := range o.calls {
			cs = append(cs, swLeanStr(c))
		}
		fmt.Fprintf(&b, "\n  ⟨%s, [%s], %v, %s, %s⟩", swLeanStr(o.op), strings.Join(cs, ", "), o.doneCase, swLeanStr(o.extra), swLeanStr(o.chosenIdx))
	}
	b.WriteString("]\n\n")
	b.WriteString("/-- the direct calls of Recv / Send / reflect.Select (made without the done case: nothing wakes them but the channel): opcode, call,\nand the whole condition of the if statement in whose then-branch the call stands (\"\" = unconditional) -/\ndef fastPathGuards : List (String × String × String) := [")
	first := true
	for _, o := range ops {
		for _, f := range o.fast {
			if !first {
				b.WriteString(",")
			}
			first = false
			fmt.Fprintf(&b, "\n  (%s, %s, %s)", swLeanStr(o.op), swLeanStr(f[0]), swLeanStr(f[1]))
		}
	}
	b.WriteString("]\n\n")
	fmt.Fprintf(&b, "/-- `done := vm.env.doneChan` (never re-assigned) and the loop of run starts with\n`if done != nil && atomic.LoadInt32(&vm.env.done) == 1 { return vm.stop() }` -/\ndef loopHeadCheck : Bool := %v\n\n", loopHead)
	b.WriteString("/-- every value assigned to the variable that appears as extra disjunct of a `done == nil ||` guard -/\ndef extraDisjunctValues : List String := [")
	for i, v := range extraVals {
		if i > 0 {
			b.WriteString(", ")
		}
		b.WriteString(swLeanStr(v))
	}
	b.WriteString("]\n\n")
	fmt.Fprintf(&b, "/-- runFunc starts a goroutine that stores 1 into env.done when ctx.Done() fires (or ends on `stop`) -/\ndef watcherSetsDone : Bool := %v\n\n", watcher)
	fmt.Fprintf(&b, "/-- after the code has finished runFunc closes `stop` and re-reads env.done: a set flag makes it return ctx.Err() -/\ndef rereadsDoneAfterFinish : Bool := %v\n\n", reread)
	fmt.Fprintf(&b, "/-- the conditions under which runFunc starts the watcher, creates `stop`, and re-reads env.done -/\ndef watcherCondition : String := %s\ndef stopCondition : String := %s\ndef epilogueCondition : String := %s\n\n", swLeanStr(watcherCond), swLeanStr(stopCond), swLeanStr(epilogueCond))
	fmt.Fprintf(&b, "/-- the re-read (and the watcher) exist for every VM of a run with a cancellable context — the main one, those started by\n`go`, those running a function value called by native code: `stop` is created exactly when `vm.env.doneChan != nil` and the\nepilogue is guarded by `stop != nil` only (in particular not by vm.main) -/\ndef epilogueForEveryVM : Bool := %v\n\n", epilogueEvery)
	fmt.Fprintf(&b, "/-- that re-read comes before `if vm.panic != nil` (the context's error wins over an unrecovered panic) -/\ndef ctxErrBeforePanic : Bool := %v\n\n", ctxBeforePanic)
	fmt.Fprintf(&b, "/-- vm.stop stores 1 into env.done (every VM of the run sees it at its next loop head) -/\ndef stopSetsDone : Bool := %v\n\n", stopSets)
	b.WriteString("/-- every place of (*VM).run where `if done != nil && atomic.LoadInt32(&vm.env.done) == 1 { return vm.stop() }` stands:\n\"loop-head\" = first statement of the instruction loop; \"OpX\" = first statement of the clause of OpX; anything else does not count -/\ndef doneCheckSites : List String := [")
	for i, v := range sites {
		if i > 0 {
			b.WriteString(", ")
		}
		b.WriteString(swLeanStr(v))
	}
	b.WriteString("]\n\n")
	b.WriteString("/-- how the clause of an opcode in the instruction switch moves the program counter: `vm.pc = …`; only `vm.pc++` / `vm.pc += k`;\nan assignment to vm.fn; a nested activation `vm.run()`; a `return` other than `return vm.stop()`; a call of vm.nextCall();\nand whether the clause starts with the flag test -/\n")
	b.WriteString("structure OpFlow where\n  op : String\n  setsPC : Bool\n  bumpsPC : Bool\n  setsFn : Bool\n  nested : Bool\n  leaves : Bool\n  nextCall : Bool\n  checksDone : Bool\nderiving DecidableEq, Repr\n\n")
	b.WriteString("def opFlow : List OpFlow := [")
	for i, f := range flows {
		if i > 0 {
			b.WriteString(",")
		}
		fmt.Fprintf(&b, "\n  ⟨%s, %v, %v, %v, %v, %v, %v, %v⟩", swLeanStr(f.op), f.setsPC, f.bumpsPC, f.setsFn, f.nested, f.leaves, f.nextCall, f.checks)
	}
	b.WriteString("]\n\n")
	b.WriteString("/-- Recv/Send/reflect.Select calls of internal/runtime outside (*VM).run -/\ndef blockingCallsOutsideRun : List String := [")
	for i, v := range outside {
		if i > 0 {
			b.WriteString(", ")
		}
		b.WriteString(swLeanStr(v))
	}
	b.WriteString("]\n\nend ScriggoV.Gen.Blocking\n")
	return b.String(), nil
}
