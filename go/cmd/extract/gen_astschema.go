package main

// Generator "AstSchema" (property C28). From /repo/ast/ast.go it lists every node type
// (a struct that embeds *Position) with the fields that hold child nodes, decided from
// the field's type expression only:
//
//	Expression | Node | Operator            one child, interface-typed
//	*K            (K a node struct)         one child, pointer-typed (may be a typed nil)
//	[]T           (T one of the above)      a list of children
//	[]*A | []A    (A a non-node struct of ast.go with child-bearing fields)
//	                                        one path "F.G" per child-bearing field G of A
//	*Tree in Extends/Import/Render          a reference to another, expanded tree ("xref")
//	IR struct{…}, Func.Upvars, FuncType.Reflect   type-checker annotations (listed, not schema)
//
// Any other field whose type mentions a node type is "shape not recognised".
//
// From ast/astutil/clone.go (CloneNode, CloneExpression) and walk.go (Walk) it reads, for
// every `case *ast.K:` of the type switch, which field paths are passed to
// CloneExpression/CloneNode/CloneTree (or copied by hand with
// ast.NewIdentifier(ClonePosition(x.Position), x.Name)), resp. to Walk — resolving range
// variables, index expressions and aggregate elements back to a path rooted at the switch
// variable — and whether a nil guard `if <path> != nil` encloses the call. A clone/walk of
// something that does not resolve to such a path is "shape not recognised". The generator
// does not check that a cloned value reaches the right constructor argument: that is tied
// by the correspondence harness (go/props/c28), which observes the real per-kind behaviour
// on synthetic nodes and compares it with these tables.

import (
	"fmt"
	"go/ast"
	"go/parser"
	"go/token"
	"path/filepath"
	"sort"
	"strings"
)

func init() {
	generators = append(generators, generator{name: "AstSchema", run: genAstSchema})
}

type asField struct {
	name  string
	class string // "child", "agg", "annot", "scalar"
	ptr   bool   // pointer-typed single child
	list  bool
	xref  bool
	elem  string // for class child with pointer type: the node struct; for agg: the aggregate struct
}

type asStruct struct {
	name   string
	node   bool // embeds *Position
	expr   bool // embeds expression / *expression
	fields []asField
}

type asSchema struct {
	structs map[string]*asStruct
	kinds   []string // node kinds in source order
	// ctorPos[K]: func New<K> of ast.go exists and its first parameter has type *Position
	ctorPos map[string]bool
	ctor    map[string]bool
}

var asIfaces = map[string]bool{"Expression": true, "Node": true, "Operator": true}

// asAnnot: fields written by the type checker only (never by the parser). Explicit list.
func asAnnot(strct, field string) bool {
	return field == "IR" || (strct == "Func" && field == "Upvars") || (strct == "FuncType" && field == "Reflect")
}

func asParseSchema(repo string) (*asSchema, error) {
	fset := token.NewFileSet()
	f, err := parser.ParseFile(fset, filepath.Join(repo, "ast", "ast.go"), nil, 0)
	if err != nil {
		return nil, err
	}
	sc := &asSchema{structs: map[string]*asStruct{}, ctorPos: map[string]bool{}, ctor: map[string]bool{}}
	for _, d := range f.Decls {
		if fd, ok := d.(*ast.FuncDecl); ok && fd.Recv == nil && strings.HasPrefix(fd.Name.Name, "New") {
			k := strings.TrimPrefix(fd.Name.Name, "New")
			sc.ctor[k] = true
			if ps := fd.Type.Params.List; len(ps) > 0 && exprString(fset, ps[0].Type) == "*Position" {
				sc.ctorPos[k] = true
			}
		}
	}
	raw := map[string]*ast.StructType{}
	var order []string
	for _, d := range f.Decls {
		gd, ok := d.(*ast.GenDecl)
		if !ok || gd.Tok != token.TYPE {
			continue
		}
		for _, s := range gd.Specs {
			ts := s.(*ast.TypeSpec)
			st, ok := ts.Type.(*ast.StructType)
			if !ok {
				continue
			}
			raw[ts.Name.Name] = st
			order = append(order, ts.Name.Name)
			as := &asStruct{name: ts.Name.Name}
			for _, fl := range st.Fields.List {
				if len(fl.Names) == 0 {
					switch exprString(fset, fl.Type) {
					case "*Position":
						as.node = true
					case "expression", "*expression":
						as.expr = true
					default:
						return nil, fmt.Errorf("shape not recognised: embedded field %s in ast.%s", exprString(fset, fl.Type), as.name)
					}
				}
			}
			sc.structs[as.name] = as
		}
	}
	// which type names denote something that holds nodes
	mentionsNode := func(e ast.Expr) bool {
		found := false
		ast.Inspect(e, func(n ast.Node) bool {
			if id, ok := n.(*ast.Ident); ok {
				if asIfaces[id.Name] {
					found = true
				}
				// any struct of ast.go other than the three known to hold no nodes (conservative:
				// a new scalar-only struct used in a field is reported, not guessed)
				if _, ok := sc.structs[id.Name]; ok && id.Name != "Position" && id.Name != "Cut" && id.Name != "expression" {
					found = true
				}
			}
			return true
		})
		return found
	}
	var classify func(strct string, name string, t ast.Expr) (asField, error)
	single := func(t ast.Expr) (ok, ptr bool, elem string) {
		switch x := t.(type) {
		case *ast.Ident:
			if asIfaces[x.Name] {
				return true, false, ""
			}
		case *ast.StarExpr:
			if id, isId := x.X.(*ast.Ident); isId {
				if s, found := sc.structs[id.Name]; found && s.node {
					return true, true, id.Name
				}
			}
		}
		return false, false, ""
	}
	classify = func(strct, name string, t ast.Expr) (asField, error) {
		fd := asField{name: name, class: "scalar"}
		if asAnnot(strct, name) {
			fd.class = "annot"
			return fd, nil
		}
		if ok, ptr, elem := single(t); ok {
			fd.class, fd.ptr, fd.elem = "child", ptr, elem
			fd.xref = elem == "Tree" && strct != "Tree"
			return fd, nil
		}
		if at, ok := t.(*ast.ArrayType); ok && at.Len == nil {
			if ok, _, elem := single(at.Elt); ok {
				fd.class, fd.list, fd.elem = "child", true, elem
				return fd, nil
			}
			et := at.Elt
			if se, ok := et.(*ast.StarExpr); ok {
				et = se.X
			}
			if id, ok := et.(*ast.Ident); ok {
				if s, found := sc.structs[id.Name]; found && !s.node && id.Name != "Position" {
					fd.class, fd.list, fd.elem = "agg", true, id.Name
					return fd, nil
				}
			}
		}
		if mentionsNode(t) {
			return fd, fmt.Errorf("shape not recognised: field ast.%s.%s has type %s", strct, name, exprString(fset, t))
		}
		return fd, nil
	}
	for _, name := range order {
		as := sc.structs[name]
		for _, fl := range raw[name].Fields.List {
			for _, id := range fl.Names {
				fd, err := classify(name, id.Name, fl.Type)
				if err != nil {
					return nil, err
				}
				as.fields = append(as.fields, fd)
			}
		}
		if as.node && name != "Position" {
			sc.kinds = append(sc.kinds, name)
		}
	}
	// aggregates must bottom out: an aggregate's agg-typed fields are not supported
	for _, as := range sc.structs {
		if as.node {
			continue
		}
		for _, fd := range as.fields {
			if fd.class == "agg" {
				return nil, fmt.Errorf("shape not recognised: aggregate ast.%s has aggregate field %s", as.name, fd.name)
			}
		}
	}
	return sc, nil
}

func (sc *asSchema) field(strct, name string) *asField {
	s := sc.structs[strct]
	if s == nil {
		return nil
	}
	for i := range s.fields {
		if s.fields[i].name == name {
			return &s.fields[i]
		}
	}
	return nil
}

// schemaPaths lists the child-bearing field paths of a kind in declaration order.
type asPath struct {
	path string
	ptr  bool
	list bool
	xref bool
}

func (sc *asSchema) schemaPaths(kind string) []asPath {
	var out []asPath
	for _, fd := range sc.structs[kind].fields {
		switch fd.class {
		case "child":
			out = append(out, asPath{fd.name, fd.ptr, fd.list, fd.xref})
		case "agg":
			for _, g := range sc.structs[fd.elem].fields {
				if g.class == "child" {
					out = append(out, asPath{fd.name + "." + g.name, g.ptr, true, false})
				}
			}
		}
	}
	return out
}

// ---- clause analysis -------------------------------------------------------------------

// asRef is what an expression of a clause body denotes, relative to the switch variable.
type asRef struct {
	what string // "child" (a child node or, under range, an element of a child list), "agglist", "aggelem", "through"
	path string // schema path ("Lhs", "Parameters.Type"); for through: f
	g    string // for through: inner field
	agg  string // aggregate struct name (agglist / aggelem)
	ptr  bool   // the single child is pointer-typed
	elem bool   // denotes an element of a list (never nil-guarded individually)
	kind string // for a pointer-typed single child: its node struct
}

type asUse struct {
	ref     asRef
	fn      string // CloneExpression, CloneNode, CloneTree, NewIdentifier, Walk
	guarded bool
}

type asClauseAn struct {
	sc    *asSchema
	fset  *token.FileSet
	kind  string
	recv  string
	env   []map[string]asRef
	guard []string
	uses  []asUse
	ctor  bool // the clause calls ast.New<kind>
	err   error
}

func (a *asClauseAn) fail(format string, args ...any) {
	if a.err == nil {
		a.err = fmt.Errorf("shape not recognised: case *ast.%s: %s", a.kind, fmt.Sprintf(format, args...))
	}
}

func (a *asClauseAn) lookup(name string) (asRef, bool) {
	for i := len(a.env) - 1; i >= 0; i-- {
		if r, ok := a.env[i][name]; ok {
			return r, true
		}
	}
	return asRef{}, false
}

// refOf resolves an expression to a reference rooted at the switch variable.
func (a *asClauseAn) refOf(e ast.Expr) (asRef, bool) {
	switch x := e.(type) {
	case *ast.ParenExpr:
		return a.refOf(x.X)
	case *ast.Ident:
		return a.lookup(x.Name)
	case *ast.IndexExpr:
		r, ok := a.refOf(x.X)
		if !ok {
			return r, false
		}
		switch r.what {
		case "child":
			r.elem = true
			return r, true
		case "agglist":
			return asRef{what: "aggelem", path: r.path, agg: r.agg}, true
		}
		return r, false
	case *ast.SelectorExpr:
		if id, ok := x.X.(*ast.Ident); ok {
			if r, found := a.lookup(id.Name); found {
				if r.what != "aggelem" {
					return asRef{}, false
				}
				fd := a.sc.field(r.agg, x.Sel.Name)
				if fd == nil || fd.class != "child" {
					return asRef{}, false
				}
				return asRef{what: "child", path: r.path + "." + fd.name, ptr: fd.ptr && !fd.list, kind: fd.elem}, true
			}
			if id.Name == a.recv {
				fd := a.sc.field(a.kind, x.Sel.Name)
				if fd == nil {
					return asRef{}, false
				}
				switch fd.class {
				case "child":
					return asRef{what: "child", path: fd.name, ptr: fd.ptr && !fd.list, kind: fd.elem}, true
				case "agg":
					return asRef{what: "agglist", path: fd.name, agg: fd.elem}, true
				}
				return asRef{}, false
			}
			return asRef{}, false
		}
		// recv.F.G : through a pointer-typed child
		if r, ok := a.refOf(x.X); ok && r.what == "child" && r.ptr && !r.elem && !strings.Contains(r.path, ".") {
			fd := a.sc.field(r.kind, x.Sel.Name)
			if fd != nil && fd.class == "child" {
				return asRef{what: "through", path: r.path, g: fd.name}, true
			}
		}
	}
	return asRef{}, false
}

func (a *asClauseAn) guardKey(r asRef) string { return r.path }

func (a *asClauseAn) isGuarded(r asRef) bool {
	for _, g := range a.guard {
		if g == r.path {
			return true
		}
	}
	return false
}

func (a *asClauseAn) use(fn string, arg ast.Expr) {
	r, ok := a.refOf(arg)
	if !ok || (r.what != "child" && r.what != "through") {
		a.fail("%s(%s): the argument is not a child field of the node", fn, exprString(a.fset, arg))
		return
	}
	a.uses = append(a.uses, asUse{ref: r, fn: fn, guarded: a.isGuarded(r)})
}

func (a *asClauseAn) exprs(n ast.Node) {
	if n == nil {
		return
	}
	ast.Inspect(n, func(m ast.Node) bool {
		call, ok := m.(*ast.CallExpr)
		if !ok {
			if _, isLit := m.(*ast.FuncLit); isLit {
				a.fail("function literal in the case body")
				return false
			}
			return true
		}
		switch fn := call.Fun.(type) {
		case *ast.Ident:
			switch fn.Name {
			case "CloneExpression", "CloneNode", "CloneTree":
				if len(call.Args) != 1 {
					a.fail("%s with %d arguments", fn.Name, len(call.Args))
					return false
				}
				a.use(fn.Name, call.Args[0])
				return false
			case "Walk":
				if len(call.Args) != 2 {
					a.fail("Walk with %d arguments", len(call.Args))
					return false
				}
				if id, ok := call.Args[0].(*ast.Ident); !ok || id.Name != "v" {
					a.fail("Walk called with a visitor other than v")
					return false
				}
				a.use("Walk", call.Args[1])
				return false
			}
		case *ast.SelectorExpr:
			if pk, ok := fn.X.(*ast.Ident); ok && pk.Name == "ast" {
				if fn.Sel.Name == "New"+a.kind {
					a.ctor = true
				}
				// hand copy of an identifier: ast.NewIdentifier(ClonePosition(x.Position), x.Name)
				if fn.Sel.Name == "NewIdentifier" && a.kind != "Identifier" && len(call.Args) == 2 {
					if nm, ok := call.Args[1].(*ast.SelectorExpr); ok && nm.Sel.Name == "Name" {
						if cp, ok := call.Args[0].(*ast.CallExpr); ok && exprString(a.fset, cp.Fun) == "ClonePosition" && len(cp.Args) == 1 {
							if ps, ok := cp.Args[0].(*ast.SelectorExpr); ok && ps.Sel.Name == "Position" &&
								exprString(a.fset, ps.X) == exprString(a.fset, nm.X) {
								a.use("NewIdentifier", nm.X)
								return false
							}
						}
					}
					a.fail("ast.NewIdentifier(%s, %s) is not a copy of one identifier", exprString(a.fset, call.Args[0]), exprString(a.fset, call.Args[1]))
					return false
				}
			}
		}
		return true
	})
}

func (a *asClauseAn) stmts(list []ast.Stmt) {
	for _, s := range list {
		a.stmt(s)
	}
}

func (a *asClauseAn) stmt(s ast.Stmt) {
	switch x := s.(type) {
	case *ast.BlockStmt:
		a.env = append(a.env, map[string]asRef{})
		a.stmts(x.List)
		a.env = a.env[:len(a.env)-1]
	case *ast.IfStmt:
		if x.Init != nil {
			a.stmt(x.Init)
		}
		a.exprs(x.Cond)
		pushed := 0
		if be, ok := x.Cond.(*ast.BinaryExpr); ok && be.Op == token.NEQ {
			if id, ok := be.Y.(*ast.Ident); ok && id.Name == "nil" {
				if r, ok := a.refOf(be.X); ok && (r.what == "child" || r.what == "agglist") {
					a.guard = append(a.guard, r.path)
					pushed = 1
				}
			}
		}
		a.stmt(x.Body)
		a.guard = a.guard[:len(a.guard)-pushed]
		if x.Else != nil {
			a.stmt(x.Else)
		}
	case *ast.RangeStmt:
		if x.Tok == token.ASSIGN {
			a.fail("range with = instead of :=")
			return
		}
		scope := map[string]asRef{}
		if r, ok := a.refOf(x.X); ok {
			var el asRef
			switch r.what {
			case "child":
				el = r
				el.elem = true
			case "agglist":
				el = asRef{what: "aggelem", path: r.path, agg: r.agg}
			case "through":
				el = r
			default:
				a.fail("range over %s", exprString(a.fset, x.X))
				return
			}
			if v, ok := x.Value.(*ast.Ident); ok && v.Name != "_" {
				scope[v.Name] = el
			}
		} else {
			a.exprs(x.X)
		}
		// the key variable shadows too (it is an int: not a reference)
		if k, ok := x.Key.(*ast.Ident); ok && k.Name != "_" {
			if _, isVal := scope[k.Name]; !isVal {
				scope[k.Name] = asRef{what: "int"}
			}
		}
		a.env = append(a.env, scope)
		a.stmt(x.Body)
		a.env = a.env[:len(a.env)-1]
	case *ast.ForStmt, *ast.SwitchStmt, *ast.TypeSwitchStmt, *ast.SelectStmt, *ast.GoStmt, *ast.DeferStmt, *ast.LabeledStmt, *ast.BranchStmt:
		a.fail("statement %T in the case body", s)
	case *ast.AssignStmt:
		for _, r := range x.Rhs {
			a.exprs(r)
		}
		for _, l := range x.Lhs {
			if _, isId := l.(*ast.Ident); !isId {
				a.exprs(l)
			}
		}
		if x.Tok == token.DEFINE {
			// a new local shadows whatever the name meant before
			for _, l := range x.Lhs {
				if id, ok := l.(*ast.Ident); ok && id.Name != "_" {
					a.env[len(a.env)-1][id.Name] = asRef{what: "local"}
				}
			}
		}
	case *ast.DeclStmt:
		a.exprs(x)
		if gd, ok := x.Decl.(*ast.GenDecl); ok {
			for _, sp := range gd.Specs {
				if vs, ok := sp.(*ast.ValueSpec); ok {
					for _, id := range vs.Names {
						a.env[len(a.env)-1][id.Name] = asRef{what: "local"}
					}
				}
			}
		}
	default:
		a.exprs(s)
	}
}

type asCase struct {
	kinds []string // the *ast.K types of the clause; "Expression" for `case ast.Expression`
	body  []ast.Stmt
}

// asTypeSwitch finds `switch <recv> := <param>.(type)` in function fn of file.
func asTypeSwitch(fset *token.FileSet, file *ast.File, fn string) (recv string, cases []asCase, hasDefault bool, err error) {
	for _, d := range file.Decls {
		fd, ok := d.(*ast.FuncDecl)
		if !ok || fd.Name.Name != fn || fd.Recv != nil {
			continue
		}
		var sw *ast.TypeSwitchStmt
		for _, s := range fd.Body.List {
			if ts, ok := s.(*ast.TypeSwitchStmt); ok {
				if sw != nil {
					return "", nil, false, fmt.Errorf("shape not recognised: %s has two type switches", fn)
				}
				sw = ts
			}
		}
		if sw == nil {
			return "", nil, false, fmt.Errorf("shape not recognised: %s has no top-level type switch", fn)
		}
		as, ok := sw.Assign.(*ast.AssignStmt)
		if !ok || len(as.Lhs) != 1 {
			return "", nil, false, fmt.Errorf("shape not recognised: %s: type switch without a bound variable", fn)
		}
		recv = as.Lhs[0].(*ast.Ident).Name
		for _, c := range sw.Body.List {
			cc := c.(*ast.CaseClause)
			if cc.List == nil {
				hasDefault = true
				continue
			}
			cs := asCase{body: cc.Body}
			for _, t := range cc.List {
				s := exprString(fset, t)
				switch {
				case strings.HasPrefix(s, "*ast."):
					cs.kinds = append(cs.kinds, strings.TrimPrefix(s, "*ast."))
				case s == "ast.Expression":
					cs.kinds = append(cs.kinds, "Expression")
				default:
					return "", nil, false, fmt.Errorf("shape not recognised: %s: case %s", fn, s)
				}
			}
			cases = append(cases, cs)
		}
		return recv, cases, hasDefault, nil
	}
	return "", nil, false, fmt.Errorf("shape not recognised: function %s not found", fn)
}

type asRow struct {
	handled   bool
	uses      []asUse
	unguarded []string
	viaExpr   bool     // CloneNode reaches the kind through `case ast.Expression: return CloneExpression(n)`
	exits     []string // Lean terms of CloneAttrs.Exit: the ways out of the arm
	pos       string   // Lean term of CloneAttrs.PosMode
}

// asAnalyse runs the clause analysis for every kind; first matching clause in source order
// (Go's type-switch semantics). exprDelegate: for CloneNode, `case ast.Expression` delegates
// to the CloneExpression rows.
func asAnalyse(sc *asSchema, fset *token.FileSet, file *ast.File, fn string, mode string, delegate map[string]*asRow) (map[string]*asRow, error) {
	recv, cases, _, err := asTypeSwitch(fset, file, fn)
	if err != nil {
		return nil, err
	}
	var shape *asFuncShape
	if mode == "clone" {
		if shape, err = asShapeOf(fset, file, fn); err != nil {
			return nil, err
		}
	}
	rows := map[string]*asRow{}
	seenKinds := map[string]bool{}
	for _, c := range cases {
		for _, k := range c.kinds {
			if k != "Expression" {
				if sc.structs[k] == nil || !sc.structs[k].node {
					return nil, fmt.Errorf("shape not recognised: %s: case *ast.%s is not a node type of ast.go", fn, k)
				}
				if seenKinds[k] {
					return nil, fmt.Errorf("shape not recognised: %s: duplicate case *ast.%s", fn, k)
				}
				seenKinds[k] = true
			}
		}
	}
	for _, kind := range sc.kinds {
		row := &asRow{}
		rows[kind] = row
		for _, c := range cases {
			match, viaExpr := false, false
			for _, k := range c.kinds {
				if k == kind {
					match = true
				}
				if k == "Expression" && sc.structs[kind].expr {
					match, viaExpr = true, true
				}
			}
			if !match {
				continue
			}
			if viaExpr {
				if delegate == nil {
					return nil, fmt.Errorf("shape not recognised: %s: case ast.Expression", fn)
				}
				if len(c.body) != 1 || exprString(fset, c.body[0]) != "return CloneExpression("+recv+")" {
					return nil, fmt.Errorf("shape not recognised: %s: case ast.Expression does not just return CloneExpression(%s)", fn, recv)
				}
				*row = *delegate[kind]
				row.viaExpr = true
				break
			}
			an := &asClauseAn{sc: sc, fset: fset, kind: kind, recv: recv, env: []map[string]asRef{{}}}
			an.stmts(c.body)
			if an.err != nil {
				return nil, fmt.Errorf("%s: %v", fn, an.err)
			}
			if mode == "clone" && !an.ctor {
				return nil, fmt.Errorf("shape not recognised: %s: case *ast.%s does not call ast.New%s", fn, kind, kind)
			}
			row.handled = true
			row.uses = an.uses
			if mode == "clone" {
				row.exits, row.pos, err = asArmSkeleton(sc, fset, fn, kind, c.body, recv, shape)
				if err != nil {
					return nil, err
				}
			}
			for _, u := range an.uses {
				if u.guarded || u.ref.elem {
					continue
				}
				unsafe := false
				switch u.fn {
				case "Walk":
					unsafe = u.ref.ptr || u.ref.what == "through"
				case "CloneExpression":
					unsafe = u.ref.ptr
				default: // CloneNode, CloneTree, NewIdentifier dereference their argument
					unsafe = true
				}
				if unsafe {
					row.unguarded = append(row.unguarded, u.ref.path)
				}
			}
			break
		}
	}
	// a clause of CloneNode for an expression kind placed after `case ast.Expression` is unreachable
	if delegate != nil {
		after := false
		for _, c := range cases {
			for _, k := range c.kinds {
				if k == "Expression" {
					after = true
				} else if after && sc.structs[k].expr {
					return nil, fmt.Errorf("shape not recognised: %s: case *ast.%s is unreachable (after case ast.Expression)", fn, k)
				}
			}
		}
	}
	return rows, nil
}

// ---- control-flow skeleton of the clone functions ----------------------------------------
//
// What happens to the attributes every node shares. The function has the shape
//
//	[if <param> == nil { return nil }]  [var <result> ast.Expression]
//	switch <recv> := <param>.(type) { … arms … }
//	[<result>.SetParenthesis(<param>.Parenthesis())]*   — the epilogue
//	[return <result>]
//
// and an arm leaves the switch by reaching its end (then the epilogue runs on <result>) or by
// a `return` of its own (which skips it).

type asFuncShape struct {
	param         string // the value being cloned
	result        string // the shared result variable ("" when nothing follows the switch)
	epilogueParen bool   // the statements after the switch copy the parenthesis count to result
}

func asShapeOf(fset *token.FileSet, file *ast.File, fn string) (*asFuncShape, error) {
	for _, d := range file.Decls {
		fd, ok := d.(*ast.FuncDecl)
		if !ok || fd.Name.Name != fn || fd.Recv != nil {
			continue
		}
		sh := &asFuncShape{}
		after := []ast.Stmt(nil)
		seen := false
		for _, s := range fd.Body.List {
			if ts, ok := s.(*ast.TypeSwitchStmt); ok {
				seen = true
				as := ts.Assign.(*ast.AssignStmt)
				ta, ok := as.Rhs[0].(*ast.TypeAssertExpr)
				if !ok {
					return nil, fmt.Errorf("shape not recognised: %s: type switch guard", fn)
				}
				id, ok := ta.X.(*ast.Ident)
				if !ok {
					return nil, fmt.Errorf("shape not recognised: %s: the type switch is not on a parameter", fn)
				}
				sh.param = id.Name
				continue
			}
			if seen {
				after = append(after, s)
			}
		}
		if len(after) == 0 {
			return sh, nil
		}
		ret, ok := after[len(after)-1].(*ast.ReturnStmt)
		if !ok || len(ret.Results) != 1 {
			return nil, fmt.Errorf("shape not recognised: %s: the statements after the type switch do not end in `return <result>`", fn)
		}
		rid, ok := ret.Results[0].(*ast.Ident)
		if !ok {
			return nil, fmt.Errorf("shape not recognised: %s: returns %s after the type switch", fn, exprString(fset, ret.Results[0]))
		}
		sh.result = rid.Name
		for _, s := range after[:len(after)-1] {
			if asIsSetParen(fset, s, sh.result, sh.param, "") {
				sh.epilogueParen = true
				continue
			}
			return nil, fmt.Errorf("shape not recognised: %s: epilogue statement %s", fn, exprString(fset, s))
		}
		return sh, nil
	}
	return nil, fmt.Errorf("shape not recognised: function %s not found", fn)
}

// asIsSetParen: s is `<on>.SetParenthesis(<from>.Parenthesis())` with from one of from1, from2.
func asIsSetParen(fset *token.FileSet, s ast.Stmt, on, from1, from2 string) bool {
	es, ok := s.(*ast.ExprStmt)
	if !ok {
		return false
	}
	got := exprString(fset, es.X)
	for _, from := range []string{from1, from2} {
		if from != "" && got == on+".SetParenthesis("+from+".Parenthesis())" {
			return true
		}
	}
	return false
}

// asArmSkeleton lists the exits of one arm and where its constructor takes the position from.
func asArmSkeleton(sc *asSchema, fset *token.FileSet, fn, kind string, body []ast.Stmt, recv string, sh *asFuncShape) (exits []string, pos string, err error) {
	// statements of the arm in source order with their nesting (top level or not)
	type setp struct {
		on  string
		pos token.Pos
	}
	var sets []setp
	var rets []*ast.ReturnStmt
	for _, s := range body {
		ast.Inspect(s, func(n ast.Node) bool {
			switch x := n.(type) {
			case *ast.ReturnStmt:
				rets = append(rets, x)
			case *ast.ExprStmt:
				if call, ok := x.X.(*ast.CallExpr); ok {
					if sel, ok := call.Fun.(*ast.SelectorExpr); ok && sel.Sel.Name == "SetParenthesis" {
						if on, ok := sel.X.(*ast.Ident); ok && asIsSetParen(fset, x, on.Name, recv, sh.param) {
							sets = append(sets, setp{on.Name, x.Pos()})
						} else {
							err = fmt.Errorf("shape not recognised: %s: case *ast.%s: %s", fn, kind, exprString(fset, x.X))
						}
					}
				}
			}
			return true
		})
	}
	if err != nil {
		return nil, "", err
	}
	for _, r := range rets {
		self := false
		if len(r.Results) == 1 {
			if id, ok := r.Results[0].(*ast.Ident); ok {
				for _, sp := range sets {
					// a top-level SetParenthesis on the returned variable, before the return
					if sp.on == id.Name && sp.pos < r.Pos() && asTopLevel(body, sp.pos) {
						self = true
					}
				}
			}
		}
		exits = append(exits, fmt.Sprintf(".ret %v", self))
	}
	falls := true
	if n := len(body); n > 0 {
		switch last := body[n-1].(type) {
		case *ast.ReturnStmt:
			falls = false
		case *ast.ExprStmt:
			if call, ok := last.X.(*ast.CallExpr); ok && exprString(fset, call.Fun) == "panic" {
				falls = false
			}
		}
	}
	if falls {
		assigned := false
		for _, s := range body {
			if as, ok := s.(*ast.AssignStmt); ok && as.Tok == token.ASSIGN && len(as.Lhs) == 1 && sh.result != "" {
				if id, ok := as.Lhs[0].(*ast.Ident); ok && id.Name == sh.result {
					assigned = true
				}
			}
		}
		exits = append(exits, fmt.Sprintf(".fall %v", assigned))
	}
	// the constructor call
	var ctor *ast.CallExpr
	for _, s := range body {
		ast.Inspect(s, func(n ast.Node) bool {
			if call, ok := n.(*ast.CallExpr); ok && ctor == nil && exprString(fset, call.Fun) == "ast.New"+kind {
				ctor = call
			}
			return true
		})
	}
	switch {
	case ctor == nil:
		return nil, "", fmt.Errorf("shape not recognised: %s: case *ast.%s does not call ast.New%s", fn, kind, kind)
	case !sc.ctor[kind]:
		return nil, "", fmt.Errorf("shape not recognised: ast.go has no func New%s", kind)
	case !sc.ctorPos[kind]:
		pos = ".ctor"
	case len(ctor.Args) > 0 && (exprString(fset, ctor.Args[0]) == "ClonePosition("+recv+".Position)" || exprString(fset, ctor.Args[0]) == "ClonePosition("+recv+".Pos())"):
		pos = ".cloned"
	default:
		pos = ".other"
	}
	return exits, pos, nil
}

// asTopLevel reports whether the statement starting at p is one of the arm's own statements
// (not nested in an if / for / block).
func asTopLevel(body []ast.Stmt, p token.Pos) bool {
	for _, s := range body {
		if s.Pos() == p {
			return true
		}
	}
	return false
}

// ---- Lean output -----------------------------------------------------------------------

func asLeanField(p string) string { return "f" + strings.ReplaceAll(p, ".", "_") }
func asLeanKind(k string) string  { return "k" + k }

func genAstSchema(repo string) (string, error) {
	sc, err := asParseSchema(repo)
	if err != nil {
		return "", err
	}
	fset := token.NewFileSet()
	cloneFile, err := parser.ParseFile(fset, filepath.Join(repo, "ast", "astutil", "clone.go"), nil, 0)
	if err != nil {
		return "", err
	}
	walkFile, err := parser.ParseFile(fset, filepath.Join(repo, "ast", "astutil", "walk.go"), nil, 0)
	if err != nil {
		return "", err
	}
	cloneExpr, err := asAnalyse(sc, fset, cloneFile, "CloneExpression", "clone", nil)
	if err != nil {
		return "", err
	}
	// CloneExpression only ever receives expressions
	for k, r := range cloneExpr {
		if r.handled && !sc.structs[k].expr {
			return "", fmt.Errorf("shape not recognised: CloneExpression: case *ast.%s is not an expression", k)
		}
	}
	cloneNode, err := asAnalyse(sc, fset, cloneFile, "CloneNode", "clone", cloneExpr)
	if err != nil {
		return "", err
	}
	walk, err := asAnalyse(sc, fset, walkFile, "Walk", "walk", nil)
	if err != nil {
		return "", err
	}

	// all field paths
	fieldSet := map[string]bool{}
	for _, k := range sc.kinds {
		for _, p := range sc.schemaPaths(k) {
			fieldSet[p.path] = true
		}
	}
	for _, rows := range []map[string]*asRow{cloneNode, walk} {
		for _, r := range rows {
			for _, u := range r.uses {
				fieldSet[u.ref.path] = true
				if u.ref.what == "through" {
					fieldSet[u.ref.g] = true
				}
			}
		}
	}
	var fields []string
	for f := range fieldSet {
		fields = append(fields, f)
	}
	sort.Strings(fields)

	var b strings.Builder
	w := func(format string, args ...any) { fmt.Fprintf(&b, format, args...) }
	w("import ScriggoV.Model.Tree\nimport ScriggoV.Model.CloneAttrs\n")
	w("/-! Node kinds of ast/ast.go with their child-bearing fields (`schema`), the fields\nCloneNode/CloneExpression deep-copy (`cloned`) and the steps of Walk (`walked`), read from\nast/astutil/clone.go and walk.go. See go/cmd/extract/gen_astschema.go for the shapes. -/\n")
	w("namespace ScriggoV.Gen.AstSchema\nopen ScriggoV.Tree (Step)\nopen ScriggoV.CloneAttrs (Exit PosMode)\n\n")
	w("inductive Kind where\n")
	for _, k := range sc.kinds {
		w("  | %s\n", asLeanKind(k))
	}
	w("  deriving DecidableEq, Repr\n\n")
	w("inductive Field where\n")
	for _, f := range fields {
		w("  | %s\n", asLeanField(f))
	}
	w("  deriving DecidableEq, Repr\n\n")
	list := func(items []string) string { return "[" + strings.Join(items, ", ") + "]" }
	var ks []string
	for _, k := range sc.kinds {
		ks = append(ks, "."+asLeanKind(k))
	}
	w("def Kind.all : List Kind :=\n  %s\n\n", list(ks))
	var fs []string
	for _, f := range fields {
		fs = append(fs, "."+asLeanField(f))
	}
	w("def Field.all : List Field :=\n  %s\n\n", list(fs))
	w("def Kind.name : Kind → String\n")
	for _, k := range sc.kinds {
		w("  | .%s => %q\n", asLeanKind(k), k)
	}
	w("\ndef Field.name : Field → String\n")
	for _, f := range fields {
		w("  | .%s => %q\n", asLeanField(f), f)
	}
	w("\ntheorem Kind.mem_all (k : Kind) : k ∈ Kind.all := by cases k <;> decide\n")
	w("theorem Field.mem_all (f : Field) : f ∈ Field.all := by cases f <;> decide\n")
	w("\ndef Kind.ofName (s : String) : Option Kind := Kind.all.find? (fun k => k.name == s)\n")
	w("def Field.ofName (s : String) : Option Field := Field.all.find? (fun f => f.name == s)\n\n")

	table := func(name, doc, typ string, row func(k string) string, dflt string) {
		w("/-- %s -/\ndef %s : Kind → %s\n", doc, name, typ)
		n := 0
		for _, k := range sc.kinds {
			r := row(k)
			if r != dflt {
				w("  | .%s => %s\n", asLeanKind(k), r)
				n++
			}
		}
		if n < len(sc.kinds) {
			w("  | _ => %s\n", dflt)
		}
		w("\n")
	}
	pathList := func(k string, pred func(asPath) bool) string {
		var xs []string
		for _, p := range sc.schemaPaths(k) {
			if pred(p) {
				xs = append(xs, "."+asLeanField(p.path))
			}
		}
		return list(xs)
	}
	table("isExpr", "the kind implements ast.Expression (embeds expression)", "Bool", func(k string) string {
		return fmt.Sprint(sc.structs[k].expr)
	}, "false")
	table("schema", "fields that hold child nodes (by the field's static type), in declaration order; for a slice of a non-node struct one path per child-bearing field of the element", "List Field",
		func(k string) string { return pathList(k, func(asPath) bool { return true }) }, "[]")
	table("xref", "fields that refer to another, expanded tree (Tree of Extends / Import / Render): cloned, but not part of the tree Walk walks", "List Field",
		func(k string) string { return pathList(k, func(p asPath) bool { return p.xref }) }, "[]")
	table("ptrFields", "single children with a pointer static type: can hold a typed nil", "List Field",
		func(k string) string { return pathList(k, func(p asPath) bool { return p.ptr && !p.list }) }, "[]")
	table("listFields", "children held in slices", "List Field",
		func(k string) string { return pathList(k, func(p asPath) bool { return p.list }) }, "[]")
	w("/-- type-checker annotations (not schema): ast.<Kind>.<field> -/\ndef annotations : List (Kind × String) :=\n")
	var ann []string
	for _, k := range sc.kinds {
		for _, fd := range sc.structs[k].fields {
			if fd.class == "annot" {
				ann = append(ann, fmt.Sprintf("(.%s, %q)", asLeanKind(k), fd.name))
			}
		}
	}
	w("  %s\n\n", list(ann))
	useList := func(r *asRow, dedup bool) string {
		var xs []string
		seen := map[string]bool{}
		for _, u := range r.uses {
			s := "." + asLeanField(u.ref.path)
			if dedup {
				if seen[s] {
					continue
				}
				seen[s] = true
			}
			xs = append(xs, s)
		}
		return list(xs)
	}
	table("cloneHandled", "CloneNode has a (reachable) case for the kind", "Bool", func(k string) string {
		return fmt.Sprint(cloneNode[k].handled)
	}, "false")
	table("cloned", "fields whose children that case passes to CloneExpression / CloneNode / CloneTree (or copies as identifiers by hand)", "List Field",
		func(k string) string { return useList(cloneNode[k], true) }, "[]")
	table("handCopied", "identifier children the case copies by hand with ast.NewIdentifier(ClonePosition(x.Position), x.Name) instead of CloneExpression: name and position are copied, the parenthesis count is not", "List Field",
		func(k string) string {
			var xs []string
			seen := map[string]bool{}
			for _, u := range cloneNode[k].uses {
				if s := "." + asLeanField(u.ref.path); u.fn == "NewIdentifier" && !seen[s] {
					seen[s] = true
					xs = append(xs, s)
				}
			}
			return list(xs)
		}, "[]")
	table("cloneUnguarded", "single children handed to a cloning function that dereferences them (CloneNode, CloneTree, a hand copy, or CloneExpression of a pointer-typed field) outside `if field != nil`", "List Field",
		func(k string) string {
			var xs []string
			for _, p := range cloneNode[k].unguarded {
				xs = append(xs, "."+asLeanField(p))
			}
			return list(xs)
		}, "[]")
	exprShape, err := asShapeOf(fset, cloneFile, "CloneExpression")
	if err != nil {
		return "", err
	}
	w("/-- the statements between the type switch of CloneExpression and its final `return <result>` copy the parenthesis count of the original to the result -/\ndef cloneEpilogueParen : Bool := %v\n\n", exprShape.epilogueParen)
	table("cloneNodeDelegates", "CloneNode reaches the kind through `case ast.Expression: return CloneExpression(n)` (no arm of its own)", "Bool", func(k string) string {
		return fmt.Sprint(cloneNode[k].viaExpr)
	}, "false")
	table("cloneExits", "the ways out of the kind's arm (of CloneExpression for a delegated kind, else of CloneNode), returns in source order, then the end of the arm if it can be reached", "List Exit", func(k string) string {
		return list(cloneNode[k].exits)
	}, "[]")
	table("clonePos", "where the arm's constructor call takes the position of the copy from", "PosMode", func(k string) string {
		if cloneNode[k].pos == "" {
			return ".other"
		}
		return cloneNode[k].pos
	}, ".other")
	table("walkHandled", "Walk has a case for the kind", "Bool", func(k string) string {
		return fmt.Sprint(walk[k].handled)
	}, "false")
	table("walked", "what the case of Walk does, in source order", "List (Step Field)", func(k string) string {
		var xs []string
		for _, u := range walk[k].uses {
			if u.ref.what == "through" {
				xs = append(xs, fmt.Sprintf(".through .%s .%s", asLeanField(u.ref.path), asLeanField(u.ref.g)))
			} else {
				xs = append(xs, ".field ."+asLeanField(u.ref.path))
			}
		}
		return list(xs)
	}, "[]")
	table("walkUnguarded", "pointer-typed single children passed to Walk (or looked through) outside `if field != nil`: Walk would call Visit with a typed nil / dereference nil", "List Field",
		func(k string) string {
			var xs []string
			for _, p := range walk[k].unguarded {
				xs = append(xs, "."+asLeanField(p))
			}
			return list(xs)
		}, "[]")
	w("end ScriggoV.Gen.AstSchema\n")
	return b.String(), nil
}
