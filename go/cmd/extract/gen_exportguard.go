package main

// Generator "ExportGuard" (property C16): what a package hands to its importer in the emitter.
//
//	from internal/compiler/emitter.go, (*emitter).emitPackage
//	    the statement `functions[fun.Ident.Name] = fn` (functions = the first result of emitPackage) and the
//	    conditions it stands under, inside `for _, dec := range pkg.Declarations { if fun, ok := dec.(*ast.Func); ok {`
//	    of the `else` branch of `if extendingFile`: translated to a Boolean function of
//	        exported = isExported(fun.Ident.Name)
//	        dummy    = isDummyMacroForRender (checked to be  strings.HasPrefix(name, `M"`) && strings.HasSuffix(name, `"`))
//	    No condition = `true`.
//	from internal/compiler/emitter_statements.go, (*emitter).emitImport
//	    every call of em.fnStore.makeAvailableScriggoFn: the expression its loop ranges over (the importer's table
//	    is filled from nothing but the `funcs` that emitPackage returned), and where `funcs` comes from.
//	from internal/compiler/compiler.go, isExported
//	    the ASCII branch `'A' <= c && c <= 'Z'` as a function of the first byte.
//
// Anything outside these shapes is an error ("shape not recognised"), never a guess.

import (
	"bytes"
	"fmt"
	"go/ast"
	"go/parser"
	"go/printer"
	"go/token"
	"path/filepath"
	"strconv"
	"strings"
)

func init() {
	generators = append(generators, generator{name: "ExportGuard", run: genExportGuard})
}

type egGen struct {
	fset *token.FileSet
}

func (g *egGen) src(n ast.Node) string {
	var b bytes.Buffer
	printer.Fprint(&b, g.fset, n)
	return strings.Join(strings.Fields(b.String()), " ")
}

func egErr(format string, a ...any) error {
	return fmt.Errorf("shape not recognised: "+format, a...)
}

func egMethod(f *ast.File, recv, name string) *ast.FuncDecl {
	for _, d := range f.Decls {
		fd, ok := d.(*ast.FuncDecl)
		if !ok || fd.Name.Name != name {
			continue
		}
		if recv == "" {
			if fd.Recv == nil {
				return fd
			}
			continue
		}
		if fd.Recv == nil || len(fd.Recv.List) != 1 {
			continue
		}
		if st, ok := fd.Recv.List[0].Type.(*ast.StarExpr); ok {
			if id, ok := st.X.(*ast.Ident); ok && id.Name == recv {
				return fd
			}
		}
	}
	return nil
}

// egPath returns the chain of nodes from root down to target (inclusive), or nil.
func egPath(root, target ast.Node) []ast.Node {
	var stack, found []ast.Node
	ast.Inspect(root, func(n ast.Node) bool {
		if found != nil {
			return false
		}
		if n == nil {
			stack = stack[:len(stack)-1]
			return true
		}
		stack = append(stack, n)
		if n == target {
			found = append([]ast.Node{}, stack...)
			return false
		}
		return true
	})
	return found
}

// guard translates a condition over the two atoms into Lean.
func (g *egGen) guard(e ast.Expr, dummyOK bool) (string, error) {
	switch e := e.(type) {
	case *ast.ParenExpr:
		return g.guard(e.X, dummyOK)
	case *ast.UnaryExpr:
		if e.Op == token.NOT {
			x, err := g.guard(e.X, dummyOK)
			if err != nil {
				return "", err
			}
			return "(!" + x + ")", nil
		}
	case *ast.BinaryExpr:
		if e.Op == token.LOR || e.Op == token.LAND {
			x, err := g.guard(e.X, dummyOK)
			if err != nil {
				return "", err
			}
			y, err := g.guard(e.Y, dummyOK)
			if err != nil {
				return "", err
			}
			op := " || "
			if e.Op == token.LAND {
				op = " && "
			}
			return "(" + x + op + y + ")", nil
		}
	case *ast.CallExpr:
		if g.src(e) == "isExported(fun.Ident.Name)" {
			return "exported", nil
		}
	case *ast.Ident:
		if e.Name == "isDummyMacroForRender" {
			if !dummyOK {
				return "", egErr("isDummyMacroForRender is used but not defined as the M\"…\" test in the same block")
			}
			return "dummy", nil
		}
		if e.Name == "true" || e.Name == "false" {
			return e.Name, nil
		}
	}
	return "", egErr("condition over functions[…] = fn: %s", g.src(e))
}

func genExportGuard(repo string) (string, error) {
	g := &egGen{fset: token.NewFileSet()}
	parse := func(rel string) (*ast.File, error) {
		return parser.ParseFile(g.fset, filepath.Join(repo, rel), nil, 0)
	}
	var out strings.Builder
	out.WriteString("/-! C16 — what a package hands to its importer in the emitter (emitPackage / emitImport) and\n`isExported`; regenerated from /repo. -/\nnamespace ScriggoV.Gen.ExportGuard\n\n")

	// ---- 1. emitPackage
	em, err := parse("internal/compiler/emitter.go")
	if err != nil {
		return "", err
	}
	ep := egMethod(em, "emitter", "emitPackage")
	if ep == nil || ep.Body == nil {
		return "", egErr("no (*emitter).emitPackage")
	}
	// the returned map
	var rets []*ast.ReturnStmt
	ast.Inspect(ep.Body, func(n ast.Node) bool {
		if _, ok := n.(*ast.FuncLit); ok {
			return false
		}
		if r, ok := n.(*ast.ReturnStmt); ok {
			rets = append(rets, r)
		}
		return true
	})
	if len(rets) != 1 || len(rets[0].Results) != 3 || g.src(rets[0].Results[0]) != "functions" {
		return "", egErr("emitPackage does not end in a single `return functions, …, …`")
	}
	// every write to functions
	var writes []*ast.AssignStmt
	bad := ""
	ast.Inspect(ep.Body, func(n ast.Node) bool {
		switch n := n.(type) {
		case *ast.AssignStmt:
			for _, l := range n.Lhs {
				if ix, ok := l.(*ast.IndexExpr); ok && g.src(ix.X) == "functions" {
					writes = append(writes, n)
				}
				if id, ok := l.(*ast.Ident); ok && id.Name == "functions" && n.Tok != token.DEFINE {
					bad = g.src(n)
				}
			}
			if n.Tok == token.DEFINE && len(n.Lhs) == 1 && g.src(n.Lhs[0]) == "functions" && g.src(n.Rhs[0]) != "map[string]*runtime.Function{}" {
				bad = g.src(n)
			}
		case *ast.CallExpr:
			// functions handed to something that could fill it
			for _, a := range n.Args {
				if g.src(a) == "functions" {
					bad = g.src(n)
				}
			}
		}
		return true
	})
	if bad != "" {
		return "", egErr("emitPackage: `functions` is written other than by an indexed assignment: %s", bad)
	}
	if len(writes) != 1 {
		return "", egErr("emitPackage: %d assignments to functions[…], want 1", len(writes))
	}
	w := writes[0]
	if len(w.Lhs) != 1 || len(w.Rhs) != 1 || g.src(w.Lhs[0]) != "functions[fun.Ident.Name]" || g.src(w.Rhs[0]) != "fn" {
		return "", egErr("emitPackage: %s", g.src(w))
	}
	path := egPath(ep.Body, w)
	if path == nil {
		return "", egErr("emitPackage: assignment not found again")
	}
	// enclosing statements, outer to inner
	var conds []string
	stage := 0 // 0: want `if extendingFile {} else`, 1: want range, 2: want type assertion, 3: guards
	dummyOK := false
	for i, n := range path {
		switch n := n.(type) {
		case *ast.BlockStmt:
			// is isDummyMacroForRender defined in this block, before the next node of the path, as expected?
			for _, st := range n.List {
				if i+1 < len(path) && st == path[i+1] {
					break
				}
				if as, ok := st.(*ast.AssignStmt); ok && as.Tok == token.DEFINE && len(as.Lhs) == 1 && g.src(as.Lhs[0]) == "isDummyMacroForRender" {
					want := "strings.HasPrefix(fun.Ident.Name, `M\"`) && strings.HasSuffix(fun.Ident.Name, `\"`)"
					if g.src(as.Rhs[0]) != want {
						return "", egErr("isDummyMacroForRender := %s", g.src(as.Rhs[0]))
					}
					dummyOK = true
				}
			}
		case *ast.IfStmt:
			inElse := i+1 < len(path) && n.Else != nil && path[i+1] == n.Else
			inThen := i+1 < len(path) && path[i+1] == ast.Node(n.Body)
			switch {
			case stage == 0 && n.Init == nil && g.src(n.Cond) == "extendingFile" && inElse:
				stage = 1
			case stage == 2 && n.Init != nil && g.src(n.Init) == "fun, ok := dec.(*ast.Func)" && g.src(n.Cond) == "ok" && inThen:
				stage = 3
			case stage == 3 && n.Init == nil && inThen:
				c, err := g.guard(n.Cond, dummyOK)
				if err != nil {
					return "", err
				}
				conds = append(conds, c)
			case stage == 3 && n.Init == nil && inElse:
				c, err := g.guard(n.Cond, dummyOK)
				if err != nil {
					return "", err
				}
				conds = append(conds, "(!"+c+")")
			default:
				return "", egErr("emitPackage: functions[…] = fn stands under `if %s` (stage %d)", g.src(n.Cond), stage)
			}
		case *ast.RangeStmt:
			if stage != 1 || g.src(n.X) != "pkg.Declarations" {
				return "", egErr("emitPackage: functions[…] = fn inside `for … range %s`", g.src(n.X))
			}
			stage = 2
		case *ast.ForStmt, *ast.SwitchStmt, *ast.TypeSwitchStmt, *ast.SelectStmt, *ast.FuncLit, *ast.CaseClause:
			return "", egErr("emitPackage: functions[…] = fn inside an unexpected %T", n)
		}
	}
	if stage != 3 {
		return "", egErr("emitPackage: functions[…] = fn is not inside `if extendingFile {} else { for … range pkg.Declarations { if fun, ok := dec.(*ast.Func); ok {` (stage %d)", stage)
	}
	guard := "true"
	if len(conds) > 0 {
		guard = strings.Join(conds, " && ")
	}
	out.WriteString("/-- the conditions `functions[fun.Ident.Name] = fn` stands under in emitPackage (the map it returns to\nemitImport), as a function of `isExported(fun.Ident.Name)` and of the name being a render dummy `M\"…\"` -/\n")
	pe, pd := "exported", "dummy"
	if !strings.Contains(guard, "exported") {
		pe = "_exported"
	}
	if !strings.Contains(guard, "dummy") {
		pd = "_dummy"
	}
	out.WriteString("def funcsGuard (" + pe + " " + pd + " : Bool) : Bool :=\n  " + guard + "\n\n")
	fmt.Fprintf(&out, "/-- number of conditions found -/\ndef funcsGuardConds : Nat := %d\n\n", len(conds))

	// ---- 1b. emitCallNode: the guard of the direct-call branch for a callee that is a plain identifier
	ecn := egMethod(em, "emitter", "emitCallNode")
	if ecn == nil || ecn.Body == nil {
		return "", egErr("no (*emitter).emitCallNode")
	}
	var direct []*ast.IfStmt
	ast.Inspect(ecn.Body, func(n ast.Node) bool {
		ifs, ok := n.(*ast.IfStmt)
		if !ok || ifs.Init == nil || g.src(ifs.Init) != "ident, ok := call.Func.(*ast.Identifier)" {
			return true
		}
		// the branch that asks the package table for ident.Name
		if len(ifs.Body.List) > 0 {
			if in, ok := ifs.Body.List[0].(*ast.IfStmt); ok && in.Init != nil &&
				g.src(in.Init) == "fn, ok := em.fnStore.availableScriggoFn(em.pkg, ident.Name)" && g.src(in.Cond) == "ok" {
				direct = append(direct, ifs)
			}
		}
		return true
	})
	// every other use of the package table by plain name inside emitCallNode would be a second direct-call path
	tableUses := 0
	ast.Inspect(ecn.Body, func(n ast.Node) bool {
		if c, ok := n.(*ast.CallExpr); ok && g.src(c.Fun) == "em.fnStore.availableScriggoFn" && len(c.Args) == 2 && g.src(c.Args[1]) == "ident.Name" {
			tableUses++
		}
		return true
	})
	if len(direct) != 1 || tableUses != 1 {
		return "", egErr("emitCallNode: %d branches `if ident, ok := call.Func.(*ast.Identifier); … { if fn, ok := em.fnStore.availableScriggoFn(em.pkg, ident.Name); ok {`, %d look-ups of ident.Name in the package table; want 1 and 1", len(direct), tableUses)
	}
	usesClosureVar := false
	var dcg func(e ast.Expr) (string, error)
	dcg = func(e ast.Expr) (string, error) {
		switch e := e.(type) {
		case *ast.ParenExpr:
			return dcg(e.X)
		case *ast.Ident:
			if e.Name == "ok" {
				return "isIdent", nil
			}
		case *ast.UnaryExpr:
			if e.Op == token.NOT {
				x, err := dcg(e.X)
				if err != nil {
					return "", err
				}
				return "(!" + x + ")", nil
			}
		case *ast.CallExpr:
			if g.src(e) == "em.fb.declaredInFunc(ident.Name)" {
				return "declaredInFunc", nil
			}
			if g.src(e) == "em.varStore.isClosureVar(em.fb.fn, ident.Name)" {
				usesClosureVar = true
				return "isClosureVar", nil
			}
		case *ast.BinaryExpr:
			if e.Op == token.LAND || e.Op == token.LOR {
				x, err := dcg(e.X)
				if err != nil {
					return "", err
				}
				y, err := dcg(e.Y)
				if err != nil {
					return "", err
				}
				op := " && "
				if e.Op == token.LOR {
					op = " || "
				}
				return "(" + x + op + y + ")", nil
			}
		}
		return "", egErr("emitCallNode: condition of the direct-call branch: %s", g.src(e))
	}
	dc, err := dcg(direct[0].Cond)
	if err != nil {
		return "", err
	}
	if usesClosureVar {
		// the atom must be the plain membership test `_, ok := vs.closureVars[fn][name]; return ok`
		vsf, err := parse("internal/compiler/emitter_var_store.go")
		if err != nil {
			return "", err
		}
		icv := egMethod(vsf, "varStore", "isClosureVar")
		fld := func(f *ast.Field, name, typ string) bool {
			return len(f.Names) == 1 && f.Names[0].Name == name && g.src(f.Type) == typ
		}
		if icv == nil || icv.Body == nil || len(icv.Body.List) != 2 || icv.Type.Params == nil ||
			len(icv.Type.Params.List) != 2 || !fld(icv.Type.Params.List[0], "fn", "*runtime.Function") || !fld(icv.Type.Params.List[1], "name", "string") ||
			g.src(icv.Body.List[0]) != "_, ok := vs.closureVars[fn][name]" || g.src(icv.Body.List[1]) != "return ok" {
			return "", egErr("(*varStore).isClosureVar is not `func (vs *varStore) isClosureVar(fn *runtime.Function, name string) bool { _, ok := vs.closureVars[fn][name]; return ok }`")
		}
	}
	pi, pdf, pcv := "isIdent", "declaredInFunc", "isClosureVar"
	if !strings.Contains(dc, "isIdent") {
		pi = "_isIdent"
	}
	if !strings.Contains(dc, "declaredInFunc") {
		pdf = "_declaredInFunc"
	}
	if !strings.Contains(dc, "isClosureVar") {
		pcv = "_isClosureVar"
	}
	out.WriteString("/-- emitCallNode, branch \"Scriggo-defined function (identifier)\": the condition under which a call\n`Name(...)` is emitted as a direct call of the package table's function `Name`, as a function of\n`call.Func` being an identifier, of `em.fb.declaredInFunc(ident.Name)` and of\n`em.varStore.isClosureVar(em.fb.fn, ident.Name)` (= `closureVars[em.fb.fn]` has the name) -/\n")
	out.WriteString("def directCallGuard (" + pi + " " + pdf + " " + pcv + " : Bool) : Bool :=\n  " + dc + "\n\n")

	// ---- 2. emitImport
	es, err := parse("internal/compiler/emitter_statements.go")
	if err != nil {
		return "", err
	}
	ei := egMethod(es, "emitter", "emitImport")
	if ei == nil || ei.Body == nil {
		return "", egErr("no (*emitter).emitImport")
	}
	var sources []string
	var calls []*ast.CallExpr
	ast.Inspect(ei.Body, func(n ast.Node) bool {
		if c, ok := n.(*ast.CallExpr); ok && g.src(c.Fun) == "em.fnStore.makeAvailableScriggoFn" {
			calls = append(calls, c)
		}
		return true
	})
	if len(calls) == 0 {
		return "", egErr("emitImport: no call of em.fnStore.makeAvailableScriggoFn")
	}
	for _, c := range calls {
		p := egPath(ei.Body, c)
		srcOf := "<not in a range loop>"
		for i := len(p) - 1; i >= 0; i-- {
			if r, ok := p[i].(*ast.RangeStmt); ok {
				if r.Key == nil || r.Value == nil || len(c.Args) != 3 || g.src(c.Args[1]) != g.src(r.Key) || g.src(c.Args[2]) != g.src(r.Value) {
					srcOf = "<range variables are not the arguments: " + g.src(c) + ">"
				} else {
					srcOf = g.src(r.X)
				}
				break
			}
		}
		sources = append(sources, srcOf)
	}
	funcsFrom := ""
	ast.Inspect(ei.Body, func(n ast.Node) bool {
		if as, ok := n.(*ast.AssignStmt); ok && len(as.Lhs) > 0 && g.src(as.Lhs[0]) == "funcs" {
			if funcsFrom != "" {
				funcsFrom += " ; "
			}
			funcsFrom += g.src(as.Rhs[0])
		}
		return true
	})
	var qs []string
	for _, s := range sources {
		qs = append(qs, strconv.Quote(s))
	}
	out.WriteString("/-- emitImport: for every call of `em.fnStore.makeAvailableScriggoFn` the expression its loop ranges over -/\n")
	out.WriteString("def importInsertSources : List String := [" + strings.Join(qs, ", ") + "]\n\n")
	out.WriteString("/-- emitImport: what `funcs` is assigned from -/\n")
	out.WriteString("def importFuncsFrom : String := " + strconv.Quote(funcsFrom) + "\n\n")

	// ---- 3. isExported
	cf, err := parse("internal/compiler/compiler.go")
	if err != nil {
		return "", err
	}
	ie := egMethod(cf, "", "isExported")
	if ie == nil || ie.Body == nil || len(ie.Body.List) < 1 {
		return "", egErr("no isExported in compiler.go")
	}
	first, ok := ie.Body.List[0].(*ast.IfStmt)
	if !ok || first.Init == nil || g.src(first.Init) != "c := name[0]" || g.src(first.Cond) != "c < utf8.RuneSelf" ||
		len(first.Body.List) != 1 {
		return "", egErr("isExported: first statement is not `if c := name[0]; c < utf8.RuneSelf { return … }`")
	}
	ret, ok := first.Body.List[0].(*ast.ReturnStmt)
	if !ok || len(ret.Results) != 1 {
		return "", egErr("isExported: ASCII branch does not return one value")
	}
	var ascii func(e ast.Expr) (string, error)
	ascii = func(e ast.Expr) (string, error) {
		switch e := e.(type) {
		case *ast.ParenExpr:
			return ascii(e.X)
		case *ast.Ident:
			if e.Name == "c" {
				return "c", nil
			}
		case *ast.BasicLit:
			if e.Kind == token.CHAR {
				r, _, _, err := strconv.UnquoteChar(e.Value[1:len(e.Value)-1], '\'')
				if err == nil && r < 128 {
					return strconv.Itoa(int(r)), nil
				}
			}
			if e.Kind == token.INT {
				return e.Value, nil
			}
		case *ast.BinaryExpr:
			ops := map[token.Token]string{token.LAND: "&&", token.LOR: "||", token.LEQ: "≤", token.GEQ: "≥", token.LSS: "<", token.GTR: ">", token.EQL: "==", token.NEQ: "!="}
			op, ok := ops[e.Op]
			if ok {
				x, err := ascii(e.X)
				if err != nil {
					return "", err
				}
				y, err := ascii(e.Y)
				if err != nil {
					return "", err
				}
				if e.Op == token.LAND || e.Op == token.LOR || e.Op == token.EQL || e.Op == token.NEQ {
					return "(" + x + " " + op + " " + y + ")", nil
				}
				return "decide (" + x + " " + op + " " + y + ")", nil
			}
		}
		return "", egErr("isExported: ASCII branch %s", g.src(e))
	}
	t, err := ascii(ret.Results[0])
	if err != nil {
		return "", err
	}
	out.WriteString("/-- isExported(name) for a name whose first byte `c` is ASCII -/\n")
	out.WriteString("def isExportedAscii (c : Nat) : Bool :=\n  " + t + "\n\n")
	out.WriteString("end ScriggoV.Gen.ExportGuard\n")
	return out.String(), nil
}
