package main

// Generator "MapRangeCalls" (property C30). Static facts about map iteration on the build path
// that the site list of "MapRanges" does not give:
//
//   - shapes: for every map range of internal/compiler (same sites, same order as MapRanges) the
//     shape of its body as a small syntactic recogniser sees it, and from which entry points it
//     can be reached in the static call graph of the package;
//   - helperCalls: some shapes are order-insensitive only if the data they are run on has a
//     uniqueness property (a search with early exit, or last-match-wins, whose test is not
//     `key == x`: a search by a field of the key, such as the name of an identifier; or a
//     selection by an order among the entries a filter lets through, deterministic only if the
//     measure is injective on those). A function
//     containing such a loop and testing something it receives as a parameter is a *helper*: the
//     obligation is its callers'. Every call of a helper in the package is listed (caller,
//     arguments as written); a function that passes its own parameters on to a helper is a helper
//     too (transitively). A new call site changes the list.
//   - sortLookups: the operands of the `for _, dep := range …` loops of sortDeclarations — how the
//     dependency list of a declaration is obtained (index by identifier, or a call).
//
// Type-checked with go/types (golang.org/x/tools/go/packages, offline). Anything that cannot
// be resolved is an error ("shape not recognised"), never a guess.

import (
	"fmt"
	"go/ast"
	"go/token"
	"go/types"
	"os"
	"path/filepath"
	"sort"
	"strings"
	"sync"

	"golang.org/x/tools/go/packages"
)

func init() {
	generators = append(generators, generator{name: "MapRangeCalls", run: genMapRangeCalls})
}

// c30Load loads and type-checks /repo/internal/compiler once per process (MapRanges,
// CompilerGlobals and MapRangeCalls share it).
var c30Cache struct {
	sync.Mutex
	repo string
	pkg  *packages.Package
	err  error
}

func c30Load(repo string) (*packages.Package, error) {
	c30Cache.Lock()
	defer c30Cache.Unlock()
	if c30Cache.repo == repo && (c30Cache.pkg != nil || c30Cache.err != nil) {
		return c30Cache.pkg, c30Cache.err
	}
	c30Cache.repo, c30Cache.pkg, c30Cache.err = repo, nil, nil
	cfg := &packages.Config{
		Mode:  packages.NeedName | packages.NeedFiles | packages.NeedSyntax | packages.NeedTypes | packages.NeedTypesInfo | packages.NeedImports | packages.NeedDeps,
		Dir:   repo,
		Tests: false,
		Env:   append(os.Environ(), "GOFLAGS=-mod=mod", "GOPROXY=off"),
	}
	pkgs, err := packages.Load(cfg, "./internal/compiler")
	switch {
	case err != nil:
		c30Cache.err = fmt.Errorf("shape not recognised: cannot load internal/compiler: %v", err)
	case len(pkgs) != 1:
		c30Cache.err = fmt.Errorf("shape not recognised: %d packages for ./internal/compiler", len(pkgs))
	case len(pkgs[0].Errors) > 0:
		c30Cache.err = fmt.Errorf("shape not recognised: internal/compiler does not type-check: %v", pkgs[0].Errors[0])
	default:
		c30Cache.pkg = pkgs[0]
	}
	return c30Cache.pkg, c30Cache.err
}

func mrcFuncName(fd *ast.FuncDecl) string {
	name := fd.Name.Name
	if fd.Recv != nil && len(fd.Recv.List) == 1 {
		t := fd.Recv.List[0].Type
		if s, ok := t.(*ast.StarExpr); ok {
			t = s.X
		}
		if id, ok := t.(*ast.Ident); ok {
			name = id.Name + "." + name
		}
	}
	return name
}

// ---- shape of a loop body ------------------------------------------------------------------

type mrcShape struct {
	shape string
	// for the select shapes: the test as written, and the parameters of the enclosing function
	// it mentions
	test       string
	testParams []string
}

type mrcBody struct {
	info   *types.Info
	fset   *token.FileSet
	rs     *ast.RangeStmt
	key    types.Object // the range key variable (nil if none)
	val    types.Object
	inside map[types.Object]bool // variables declared inside the loop (range variables included)
	// what the body does
	indexedStores, appends, outerAssigns, callStmts, exits, incdecs int
	exitUsesEntry                                                   bool // a return / panic mentions a variable declared inside the loop
	conds                                                           []ast.Expr
	nested                                                          bool // another loop inside
}

func (b *mrcBody) declared(id *ast.Ident) bool {
	o := b.info.ObjectOf(id)
	return o != nil && b.inside[o]
}

func (b *mrcBody) usesInside(n ast.Node) bool {
	found := false
	ast.Inspect(n, func(x ast.Node) bool {
		if id, ok := x.(*ast.Ident); ok && b.declared(id) {
			found = true
		}
		return true
	})
	return found
}

func (b *mrcBody) rootIdent(e ast.Expr) *ast.Ident {
	for {
		switch x := e.(type) {
		case *ast.ParenExpr:
			e = x.X
		case *ast.SelectorExpr:
			e = x.X
		case *ast.IndexExpr:
			e = x.X
		case *ast.StarExpr:
			e = x.X
		case *ast.Ident:
			return x
		default:
			return nil
		}
	}
}

func (b *mrcBody) stmts(list []ast.Stmt) {
	for _, st := range list {
		switch s := st.(type) {
		case *ast.AssignStmt:
			if s.Tok == token.DEFINE {
				for _, l := range s.Lhs {
					if id, ok := l.(*ast.Ident); ok {
						if o := b.info.Defs[id]; o != nil {
							b.inside[o] = true
						}
					}
				}
				continue
			}
			for i, l := range s.Lhs {
				root := b.rootIdent(l)
				if root != nil && b.declared(root) {
					if _, isIdx := l.(*ast.IndexExpr); !isIdx {
						continue // a local of the loop (or the range variable itself)
					}
				}
				if _, isIdx := l.(*ast.IndexExpr); isIdx {
					b.indexedStores++
					continue
				}
				if len(s.Rhs) == len(s.Lhs) {
					if call, ok := s.Rhs[i].(*ast.CallExpr); ok {
						if id, ok := call.Fun.(*ast.Ident); ok && id.Name == "append" && len(call.Args) > 0 && exprString(b.fset, call.Args[0]) == exprString(b.fset, l) {
							b.appends++
							continue
						}
					}
				}
				b.outerAssigns++
			}
		case *ast.IncDecStmt:
			if root := b.rootIdent(s.X); root == nil || !b.declared(root) {
				b.incdecs++
			}
		case *ast.ExprStmt:
			call, ok := s.X.(*ast.CallExpr)
			if !ok {
				b.callStmts++
				continue
			}
			if id, ok := call.Fun.(*ast.Ident); ok && id.Name == "panic" {
				b.exits++
				if b.usesInside(call) {
					b.exitUsesEntry = true
				}
				continue
			}
			if sel, ok := call.Fun.(*ast.SelectorExpr); ok {
				if p, ok := sel.X.(*ast.Ident); ok {
					if pn, ok := b.info.Uses[p].(*types.PkgName); ok && pn.Imported().Path() == "maps" && sel.Sel.Name == "Copy" {
						b.indexedStores++
						continue
					}
				}
			}
			b.callStmts++
		case *ast.ReturnStmt:
			b.exits++
			if b.usesInside(s) {
				b.exitUsesEntry = true
			}
		case *ast.BranchStmt:
			if s.Tok == token.BREAK || s.Tok == token.GOTO {
				b.exits++
			}
		case *ast.IfStmt:
			if s.Init != nil {
				b.stmts([]ast.Stmt{s.Init})
			}
			b.conds = append(b.conds, s.Cond)
			b.stmts(s.Body.List)
			switch e := s.Else.(type) {
			case *ast.BlockStmt:
				b.stmts(e.List)
			case *ast.IfStmt:
				b.stmts([]ast.Stmt{e})
			}
		case *ast.BlockStmt:
			b.stmts(s.List)
		case *ast.RangeStmt, *ast.ForStmt:
			b.nested = true
			b.callStmts++ // not looked into: unrecognised
		case *ast.DeclStmt:
			if gd, ok := s.Decl.(*ast.GenDecl); ok {
				for _, sp := range gd.Specs {
					if vs, ok := sp.(*ast.ValueSpec); ok {
						for _, id := range vs.Names {
							if o := b.info.Defs[id]; o != nil {
								b.inside[o] = true
							}
						}
					}
				}
			}
		case *ast.EmptyStmt:
		default:
			b.callStmts++
		}
	}
}

func mrcHasOrder(e ast.Expr) bool {
	found := false
	ast.Inspect(e, func(n ast.Node) bool {
		if be, ok := n.(*ast.BinaryExpr); ok {
			switch be.Op {
			case token.LSS, token.GTR, token.LEQ, token.GEQ:
				found = true
			}
		}
		return true
	})
	return found
}

// mrcShapeOf classifies the body of a map range. next is the statement after the loop.
func mrcShapeOf(info *types.Info, fset *token.FileSet, rs *ast.RangeStmt, next ast.Stmt, params map[types.Object]string) mrcShape {
	b := &mrcBody{info: info, fset: fset, rs: rs, inside: map[types.Object]bool{}}
	if id, ok := rs.Key.(*ast.Ident); ok && id.Name != "_" {
		b.key = info.ObjectOf(id)
		b.inside[b.key] = true
	}
	if id, ok := rs.Value.(*ast.Ident); ok && id.Name != "_" {
		b.val = info.ObjectOf(id)
		b.inside[b.val] = true
	}
	b.stmts(rs.Body.List)
	isSort := func(st ast.Stmt) bool {
		es, ok := st.(*ast.ExprStmt)
		if !ok {
			return false
		}
		call, ok := es.X.(*ast.CallExpr)
		if !ok {
			return false
		}
		sel, ok := call.Fun.(*ast.SelectorExpr)
		if !ok {
			return false
		}
		p, ok := sel.X.(*ast.Ident)
		if !ok {
			return false
		}
		pn, ok := info.Uses[p].(*types.PkgName)
		return ok && (pn.Imported().Path() == "sort" || pn.Imported().Path() == "slices")
	}
	switch {
	case b.callStmts > 0 || b.nested:
		return mrcShape{shape: "unrecognised"}
	case b.exits == 0 && b.outerAssigns == 0 && (b.appends > 0 || b.incdecs > 0):
		if next != nil && isSort(next) {
			return mrcShape{shape: "collectThenSort"}
		}
		return mrcShape{shape: "collectUnsorted"}
	case b.exits == 0 && b.outerAssigns == 0 && b.appends == 0 && b.incdecs == 0 && b.indexedStores > 0:
		return mrcShape{shape: "indexedStore"}
	case b.indexedStores > 0 || b.appends > 0 || b.incdecs > 0:
		return mrcShape{shape: "unrecognised"}
	}
	// a selection: tests, assignments to variables of the enclosing function, exits
	order := false
	for _, c := range b.conds {
		order = order || mrcHasOrder(c)
	}
	if order {
		// a selection by an order (arg-min / arg-max / maximum). The conjuncts of its conditions
		// that are not part of the comparison and look at the entry are the *filter* of the
		// selection (`g.Name == name && (first == nil || g.Pos().Start < first.Pos().Start)`:
		// the filter is `g.Name == name`): the result is independent of the order only if the
		// measure is injective on the entries the filter lets through — when the filter tests a
		// parameter that is the callers' obligation, as for a search by a field.
		sh := mrcShape{shape: "minMax"}
		var filter []string
		seen := map[string]bool{}
		var conj func(e ast.Expr)
		conj = func(e ast.Expr) {
			switch x := e.(type) {
			case *ast.ParenExpr:
				conj(x.X)
				return
			case *ast.BinaryExpr:
				if x.Op == token.LAND {
					conj(x.X)
					conj(x.Y)
					return
				}
			}
			if mrcHasOrder(e) || !b.usesInside(e) {
				return
			}
			filter = append(filter, exprString(fset, e))
			ast.Inspect(e, func(n ast.Node) bool {
				if id, ok := n.(*ast.Ident); ok {
					if name, ok := params[info.ObjectOf(id)]; ok && !seen[name] {
						seen[name] = true
						sh.testParams = append(sh.testParams, name)
					}
				}
				return true
			})
		}
		for _, c := range b.conds {
			conj(c)
		}
		sh.test = strings.Join(filter, " && ")
		return sh
	}
	if b.outerAssigns == 0 && b.exits > 0 && !b.exitUsesEntry {
		return mrcShape{shape: "exists"}
	}
	if len(b.conds) != 1 {
		return mrcShape{shape: "unrecognised"}
	}
	cond := b.conds[0]
	sh := mrcShape{shape: "selectByField", test: exprString(fset, cond)}
	if be, ok := cond.(*ast.BinaryExpr); ok && be.Op == token.EQL && b.key != nil {
		for _, side := range []ast.Expr{be.X, be.Y} {
			if id, ok := side.(*ast.Ident); ok && info.ObjectOf(id) == b.key {
				sh.shape = "selectByKey"
			}
		}
	}
	seen := map[string]bool{}
	ast.Inspect(cond, func(n ast.Node) bool {
		if id, ok := n.(*ast.Ident); ok {
			if name, ok := params[info.ObjectOf(id)]; ok && !seen[name] {
				seen[name] = true
				sh.testParams = append(sh.testParams, name)
			}
		}
		return true
	})
	return sh
}

// ---- the generator ----------------------------------------------------------------------------

type mrcFunc struct {
	name   string
	file   string
	decl   *ast.FuncDecl
	obj    *types.Func
	params map[types.Object]string
	// call sites in the body (function literals included): callee → arguments
	calls []mrcCall
	refs  map[*types.Func]bool
}

type mrcCall struct {
	callee *types.Func
	args   []ast.Expr
	text   string
}

func genMapRangeCalls(repo string) (string, error) {
	pkg, err := c30Load(repo)
	if err != nil {
		return "", err
	}
	info, fset := pkg.TypesInfo, pkg.Fset
	var funcs []*mrcFunc
	byObj := map[*types.Func]*mrcFunc{}
	methodsByName := map[string][]*types.Func{}
	for _, f := range pkg.Syntax {
		file := filepath.Base(fset.Position(f.Pos()).Filename)
		for _, d := range f.Decls {
			fd, ok := d.(*ast.FuncDecl)
			if !ok || fd.Body == nil {
				continue
			}
			obj, _ := info.Defs[fd.Name].(*types.Func)
			if obj == nil {
				return "", fmt.Errorf("shape not recognised: no object for function %s", fd.Name.Name)
			}
			mf := &mrcFunc{name: mrcFuncName(fd), file: file, decl: fd, obj: obj, params: map[types.Object]string{}, refs: map[*types.Func]bool{}}
			// (the receiver is not counted: what a method finds in its receiver is state, not an argument)
			for _, fl := range []*ast.FieldList{fd.Type.Params} {
				for _, p := range fl.List {
					for _, id := range p.Names {
						if o := info.Defs[id]; o != nil {
							mf.params[o] = id.Name
						}
					}
				}
			}
			funcs = append(funcs, mf)
			byObj[obj] = mf
			if fd.Recv != nil {
				methodsByName[fd.Name.Name] = append(methodsByName[fd.Name.Name], obj)
			}
		}
	}
	for _, mf := range funcs {
		ast.Inspect(mf.decl.Body, func(n ast.Node) bool {
			switch x := n.(type) {
			case *ast.Ident:
				if fo, ok := info.Uses[x].(*types.Func); ok && fo.Pkg() == pkg.Types {
					mf.refs[fo] = true
				}
			case *ast.SelectorExpr:
				// a method called through an interface: every method of the package with that name
				if sel := info.Selections[x]; sel != nil && sel.Kind() == types.MethodVal {
					if _, isIface := sel.Recv().Underlying().(*types.Interface); isIface {
						for _, m := range methodsByName[x.Sel.Name] {
							mf.refs[m] = true
						}
					}
				}
			case *ast.CallExpr:
				var id *ast.Ident
				switch f := x.Fun.(type) {
				case *ast.Ident:
					id = f
				case *ast.SelectorExpr:
					id = f.Sel
				}
				if id != nil {
					if fo, ok := info.Uses[id].(*types.Func); ok && fo.Pkg() == pkg.Types {
						var as []string
						for _, a := range x.Args {
							as = append(as, exprString(fset, a))
						}
						mf.calls = append(mf.calls, mrcCall{callee: fo, args: x.Args, text: strings.Join(as, ", ")})
					}
				}
			}
			return true
		})
	}
	// reachability from the entry points
	reach := func(roots ...string) map[*types.Func]bool {
		seen := map[*types.Func]bool{}
		var todo []*types.Func
		for _, mf := range funcs {
			for _, r := range roots {
				if mf.name == r {
					todo = append(todo, mf.obj)
				}
			}
		}
		for len(todo) > 0 {
			f := todo[len(todo)-1]
			todo = todo[:len(todo)-1]
			if seen[f] {
				continue
			}
			seen[f] = true
			if mf := byObj[f]; mf != nil {
				for g := range mf.refs {
					todo = append(todo, g)
				}
			}
		}
		return seen
	}
	fromBuild := reach("BuildProgram", "BuildTemplate")
	if len(fromBuild) < 50 {
		return "", fmt.Errorf("shape not recognised: BuildProgram / BuildTemplate not found or reach only %d functions", len(fromBuild))
	}
	fromDis := reach("Disassemble", "DisassembleFunction")

	// the map ranges, in the order of MapRanges
	type site struct {
		file, fn string
		ord      int
		operand  string
		sh       mrcShape
		reach    string
		mf       *mrcFunc
	}
	var sites []site
	for _, mf := range funcs {
		following := map[ast.Stmt]ast.Stmt{}
		ast.Inspect(mf.decl.Body, func(n ast.Node) bool {
			var list []ast.Stmt
			switch b := n.(type) {
			case *ast.BlockStmt:
				list = b.List
			case *ast.CaseClause:
				list = b.Body
			case *ast.CommClause:
				list = b.Body
			}
			for i := 0; i+1 < len(list); i++ {
				st := list[i]
				if l, ok := st.(*ast.LabeledStmt); ok {
					st = l.Stmt
				}
				following[st] = list[i+1]
			}
			return true
		})
		ord := 0
		ast.Inspect(mf.decl.Body, func(n ast.Node) bool {
			rs, ok := n.(*ast.RangeStmt)
			if !ok {
				return true
			}
			tv, ok := info.Types[rs.X]
			if !ok {
				err = fmt.Errorf("shape not recognised: no type for range operand in %s %s", mf.file, mf.name)
				return true
			}
			if _, isMap := tv.Type.Underlying().(*types.Map); !isMap {
				return true
			}
			r := "other"
			switch {
			case fromBuild[mf.obj]:
				r = "build"
			case fromDis[mf.obj]:
				r = "disassemble"
			}
			sites = append(sites, site{file: mf.file, fn: mf.name, ord: ord, operand: exprString(fset, rs.X),
				sh: mrcShapeOf(info, fset, rs, following[rs], mf.params), reach: r, mf: mf})
			ord++
			return true
		})
	}
	if err != nil {
		return "", err
	}
	sort.SliceStable(sites, func(i, j int) bool {
		a, b := sites[i], sites[j]
		if a.file != b.file {
			return a.file < b.file
		}
		if a.fn != b.fn {
			return a.fn < b.fn
		}
		return a.ord < b.ord
	})

	// helpers: functions with a selectByField loop whose test — or a minMax loop whose filter —
	// mentions a parameter, and functions that pass a parameter of theirs on to a helper
	helper := map[*types.Func]bool{}
	for _, s := range sites {
		if (s.sh.shape == "selectByField" || s.sh.shape == "minMax") && len(s.sh.testParams) > 0 {
			helper[s.mf.obj] = true
		}
	}
	usesParam := func(mf *mrcFunc, args []ast.Expr) bool {
		found := false
		for _, a := range args {
			ast.Inspect(a, func(n ast.Node) bool {
				if id, ok := n.(*ast.Ident); ok {
					if _, isParam := mf.params[info.ObjectOf(id)]; isParam {
						found = true
					}
				}
				return true
			})
		}
		return found
	}
	for changed := true; changed; {
		changed = false
		for _, mf := range funcs {
			if helper[mf.obj] {
				continue
			}
			for _, c := range mf.calls {
				if helper[c.callee] && usesParam(mf, c.args) {
					helper[mf.obj] = true
					changed = true
					break
				}
			}
		}
	}
	type edge struct{ callee, caller, args, reach string }
	var edges []edge
	for _, mf := range funcs {
		for _, c := range mf.calls {
			if helper[c.callee] {
				r := "other"
				switch {
				case fromBuild[mf.obj]:
					r = "build"
				case fromDis[mf.obj]:
					r = "disassemble"
				}
				edges = append(edges, edge{byObj[c.callee].name, mf.name, c.text, r})
			}
		}
	}
	sort.SliceStable(edges, func(i, j int) bool {
		if edges[i].callee != edges[j].callee {
			return edges[i].callee < edges[j].callee
		}
		return edges[i].caller < edges[j].caller
	})

	// how sortDeclarations obtains the dependencies of a declaration
	var lookups [][2]string
	var sortDecl *mrcFunc
	for _, mf := range funcs {
		if mf.name == "sortDeclarations" {
			sortDecl = mf
		}
	}
	if sortDecl == nil {
		return "", fmt.Errorf("shape not recognised: function sortDeclarations not found")
	}
	ast.Inspect(sortDecl.decl.Body, func(n ast.Node) bool {
		rs, ok := n.(*ast.RangeStmt)
		if !ok {
			return true
		}
		tv, ok := info.Types[rs.X]
		if !ok {
			return true
		}
		sl, ok := tv.Type.Underlying().(*types.Slice)
		if !ok {
			return true
		}
		ptr, ok := sl.Elem().(*types.Pointer)
		if !ok {
			return true
		}
		if nm, ok := ptr.Elem().(*types.Named); !ok || nm.Obj().Name() != "Identifier" {
			return true
		}
		if id, ok := rs.Value.(*ast.Ident); !ok || id.Name != "dep" {
			return true // the loops over the dependencies of one declaration name their variable dep
		}
		how := "other"
		switch x := rs.X.(type) {
		case *ast.IndexExpr:
			if mt, ok := info.Types[x.X].Type.Underlying().(*types.Map); ok {
				if types.Identical(mt.Key(), info.Types[x.Index].Type) {
					if _, isPtr := mt.Key().(*types.Pointer); isPtr {
						how = "index-by-identifier"
					}
				}
			}
		case *ast.CallExpr:
			how = "call " + exprString(fset, x.Fun)
		}
		lookups = append(lookups, [2]string{exprString(fset, rs.X), how})
		return true
	})
	if len(lookups) == 0 {
		return "", fmt.Errorf("shape not recognised: no `for _, dep := range …` over []*ast.Identifier in sortDeclarations")
	}

	var b strings.Builder
	b.WriteString("/-! Map iteration on the build path of /repo/internal/compiler (go/types): the shape of every map\nrange (same sites, same order as `Gen/MapRanges.lean`), from where it can be reached, every call of a\nhelper whose loop searches by something other than the key, and how `sortDeclarations` looks up the\ndependencies of a declaration. See go/cmd/extract/gen_maprangecalls.go. -/\n")
	b.WriteString("namespace ScriggoV.Gen.MapRangeCalls\n\n")
	b.WriteString("structure Shape where\n  file : String\n  fn : String\n  ord : Nat\n  /-- collectThenSort | collectUnsorted | indexedStore | exists | selectByKey | selectByField | minMax | unrecognised (statements that are calls, nested loops, a mixture: to be read by hand) -/\n  shape : String\n  /-- select shapes: the test as written; minMax: the filter (the conjuncts of its conditions that look at the entry and are not the comparison), as written -/\n  test : String\n  /-- the parameters of the enclosing function the test mentions -/\n  testParams : List String\n  /-- build (reachable from BuildProgram / BuildTemplate) | disassemble | other -/\n  reach : String\n  deriving DecidableEq, Repr\n\n")
	b.WriteString("def shapes : List Shape := [\n")
	for i, s := range sites {
		sep := ","
		if i == len(sites)-1 {
			sep = ""
		}
		var ps []string
		for _, p := range s.sh.testParams {
			ps = append(ps, fmt.Sprintf("%q", p))
		}
		fmt.Fprintf(&b, "  { file := %q, fn := %q, ord := %d, shape := %q, test := %q, testParams := [%s], reach := %q }%s\n",
			s.file, s.fn, s.ord, s.sh.shape, s.sh.test, strings.Join(ps, ", "), s.reach, sep)
	}
	b.WriteString("]\n\n")
	b.WriteString("structure Call where\n  callee : String\n  caller : String\n  args : String\n  reach : String\n  deriving DecidableEq, Repr\n\n")
	b.WriteString("/-- every call, in the package, of a helper (a function whose by-field search tests one of its\nparameters, or that passes its parameters on to such a function) -/\ndef helperCalls : List Call := [\n")
	for i, e := range edges {
		sep := ","
		if i == len(edges)-1 {
			sep = ""
		}
		fmt.Fprintf(&b, "  { callee := %q, caller := %q, args := %q, reach := %q }%s\n", e.callee, e.caller, e.args, e.reach, sep)
	}
	b.WriteString("]\n\n")
	b.WriteString("/-- the operands of the `for _, dep := range …` loops of sortDeclarations, in source order, and how\neach obtains the list: `index-by-identifier` (a map indexed by a key of its pointer key type) or\n`call <function>` -/\ndef sortLookups : List (String × String) := [\n")
	for i, l := range lookups {
		sep := ","
		if i == len(lookups)-1 {
			sep = ""
		}
		fmt.Fprintf(&b, "  (%q, %q)%s\n", l[0], l[1], sep)
	}
	b.WriteString("]\n\nend ScriggoV.Gen.MapRangeCalls\n")
	return b.String(), nil
}
