package main

import (
	"fmt"
	"go/ast"
	"go/parser"
	"go/token"
	"path/filepath"
	"strconv"
	"strings"
)

// Generator "Precedence" (property C27): from /repo/ast/ast.go
//   - the OperatorType constants (inductive Op, in declaration order),
//   - OperatorType.String()'s table (Op.str),
//   - (*BinaryOperator).Precedence()'s switch (binaryPrecedence; none = the final panic),
//   - (*UnaryOperator).Precedence()'s constant (unaryPrecedence),
//   - the parenthesisation conditions of (*BinaryOperator).String() and
//     (*UnaryOperator).String() (binaryLeftParens, binaryRightParens, unaryParens).
func init() {
	generators = append(generators, generator{name: "Precedence", run: genPrecedence})
}

func genPrecedence(repo string) (string, error) {
	fset := token.NewFileSet()
	file, err := parser.ParseFile(fset, filepath.Join(repo, "ast", "ast.go"), nil, 0)
	if err != nil {
		return "", err
	}

	// 0. the two small enumerations the printer and parser switch on
	enum := func(typ, suffix string) ([]string, error) {
		for _, d := range file.Decls {
			gd, ok := d.(*ast.GenDecl)
			if !ok || gd.Tok != token.CONST || len(gd.Specs) == 0 {
				continue
			}
			first := gd.Specs[0].(*ast.ValueSpec)
			if id, ok := first.Type.(*ast.Ident); !ok || id.Name != typ {
				continue
			}
			if len(first.Values) != 1 {
				return nil, fmt.Errorf("shape not recognised: %s constants", typ)
			}
			if id, ok := first.Values[0].(*ast.Ident); !ok || id.Name != "iota" {
				return nil, fmt.Errorf("shape not recognised: %s constants do not start at iota", typ)
			}
			var names []string
			for i, sp := range gd.Specs {
				vs := sp.(*ast.ValueSpec)
				if len(vs.Names) != 1 || (i > 0 && (vs.Type != nil || len(vs.Values) != 0)) {
					return nil, fmt.Errorf("shape not recognised: %s constant #%d", typ, i)
				}
				n := vs.Names[0].Name
				if !strings.HasSuffix(n, suffix) || len(n) == len(suffix) {
					return nil, fmt.Errorf("shape not recognised: %s constant %s", typ, n)
				}
				names = append(names, n)
			}
			return names, nil
		}
		return nil, fmt.Errorf("shape not recognised: %s constants not found", typ)
	}
	litKinds, err := enum("LiteralType", "Literal")
	if err != nil {
		return "", err
	}
	chanDirs, err := enum("ChanDirection", "Direction")
	if err != nil {
		return "", err
	}

	// 1. constants
	var ops []string
	for _, d := range file.Decls {
		gd, ok := d.(*ast.GenDecl)
		if !ok || gd.Tok != token.CONST || len(gd.Specs) == 0 {
			continue
		}
		first := gd.Specs[0].(*ast.ValueSpec)
		if id, ok := first.Type.(*ast.Ident); !ok || id.Name != "OperatorType" {
			continue
		}
		if len(first.Values) != 1 {
			return "", fmt.Errorf("shape not recognised: OperatorType constants: first value")
		}
		if id, ok := first.Values[0].(*ast.Ident); !ok || id.Name != "iota" {
			return "", fmt.Errorf("shape not recognised: OperatorType constants do not start at iota")
		}
		for i, s := range gd.Specs {
			vs := s.(*ast.ValueSpec)
			if len(vs.Names) != 1 || (i > 0 && (vs.Type != nil || len(vs.Values) != 0)) {
				return "", fmt.Errorf("shape not recognised: OperatorType constant #%d", i)
			}
			name := vs.Names[0].Name
			if !strings.HasPrefix(name, "Operator") || len(name) == len("Operator") {
				return "", fmt.Errorf("shape not recognised: OperatorType constant %s", name)
			}
			ops = append(ops, strings.TrimPrefix(name, "Operator"))
		}
	}
	if len(ops) == 0 {
		return "", fmt.Errorf("shape not recognised: OperatorType constants not found")
	}
	isOp := map[string]bool{}
	for _, o := range ops {
		isOp[o] = true
	}

	method := func(recv, name string) *ast.FuncDecl {
		for _, d := range file.Decls {
			fd, ok := d.(*ast.FuncDecl)
			if !ok || fd.Name.Name != name || fd.Recv == nil || len(fd.Recv.List) != 1 {
				continue
			}
			t := fd.Recv.List[0].Type
			if st, ok := t.(*ast.StarExpr); ok {
				if id, ok := st.X.(*ast.Ident); ok && "*"+id.Name == recv {
					return fd
				}
			} else if id, ok := t.(*ast.Ident); ok && id.Name == recv {
				return fd
			}
		}
		return nil
	}

	// 2. OperatorType.String
	var strs []string
	{
		fd := method("OperatorType", "String")
		if fd == nil || len(fd.Body.List) != 1 {
			return "", fmt.Errorf("shape not recognised: OperatorType.String")
		}
		ret, ok := fd.Body.List[0].(*ast.ReturnStmt)
		if !ok || len(ret.Results) != 1 {
			return "", fmt.Errorf("shape not recognised: OperatorType.String: return")
		}
		ix, ok := ret.Results[0].(*ast.IndexExpr)
		if !ok {
			return "", fmt.Errorf("shape not recognised: OperatorType.String: not an indexed table")
		}
		if id, ok := ix.Index.(*ast.Ident); !ok || id.Name != fd.Recv.List[0].Names[0].Name {
			return "", fmt.Errorf("shape not recognised: OperatorType.String: index is not the receiver")
		}
		cl, ok := ix.X.(*ast.CompositeLit)
		if !ok {
			return "", fmt.Errorf("shape not recognised: OperatorType.String: table")
		}
		for _, el := range cl.Elts {
			bl, ok := el.(*ast.BasicLit)
			if !ok || bl.Kind != token.STRING {
				return "", fmt.Errorf("shape not recognised: OperatorType.String: table element")
			}
			s, err := strconv.Unquote(bl.Value)
			if err != nil {
				return "", err
			}
			strs = append(strs, s)
		}
		if len(strs) < len(ops) {
			return "", fmt.Errorf("shape not recognised: OperatorType.String: table has %d entries for %d operators", len(strs), len(ops))
		}
		for _, s := range strs[len(ops):] {
			if s != "" {
				return "", fmt.Errorf("shape not recognised: OperatorType.String: extra table entry %q", s)
			}
		}
	}

	// 3. (*BinaryOperator).Precedence
	prec := map[string]int{}
	var precOrder []string
	{
		fd := method("*BinaryOperator", "Precedence")
		if fd == nil || len(fd.Body.List) != 2 {
			return "", fmt.Errorf("shape not recognised: BinaryOperator.Precedence")
		}
		sw, ok := fd.Body.List[0].(*ast.SwitchStmt)
		if !ok || sw.Init != nil {
			return "", fmt.Errorf("shape not recognised: BinaryOperator.Precedence: switch")
		}
		if sel, ok := sw.Tag.(*ast.SelectorExpr); !ok || sel.Sel.Name != "Op" {
			return "", fmt.Errorf("shape not recognised: BinaryOperator.Precedence: switch tag")
		}
		if es, ok := fd.Body.List[1].(*ast.ExprStmt); !ok {
			return "", fmt.Errorf("shape not recognised: BinaryOperator.Precedence: no final panic")
		} else if call, ok := es.X.(*ast.CallExpr); !ok {
			return "", fmt.Errorf("shape not recognised: BinaryOperator.Precedence: no final panic")
		} else if id, ok := call.Fun.(*ast.Ident); !ok || id.Name != "panic" {
			return "", fmt.Errorf("shape not recognised: BinaryOperator.Precedence: no final panic")
		}
		for _, st := range sw.Body.List {
			cc := st.(*ast.CaseClause)
			if cc.List == nil || len(cc.Body) != 1 {
				return "", fmt.Errorf("shape not recognised: BinaryOperator.Precedence: case")
			}
			ret, ok := cc.Body[0].(*ast.ReturnStmt)
			if !ok || len(ret.Results) != 1 {
				return "", fmt.Errorf("shape not recognised: BinaryOperator.Precedence: case body")
			}
			bl, ok := ret.Results[0].(*ast.BasicLit)
			if !ok || bl.Kind != token.INT {
				return "", fmt.Errorf("shape not recognised: BinaryOperator.Precedence: case value")
			}
			v, err := strconv.Atoi(bl.Value)
			if err != nil || v < 0 {
				return "", fmt.Errorf("shape not recognised: BinaryOperator.Precedence: case value %s", bl.Value)
			}
			for _, e := range cc.List {
				id, ok := e.(*ast.Ident)
				if !ok || !isOp[strings.TrimPrefix(id.Name, "Operator")] {
					return "", fmt.Errorf("shape not recognised: BinaryOperator.Precedence: case label")
				}
				name := strings.TrimPrefix(id.Name, "Operator")
				if _, dup := prec[name]; dup {
					return "", fmt.Errorf("shape not recognised: BinaryOperator.Precedence: duplicate %s", name)
				}
				prec[name] = v
				precOrder = append(precOrder, name)
			}
		}
	}

	// 4. (*UnaryOperator).Precedence
	var uprec int
	{
		fd := method("*UnaryOperator", "Precedence")
		if fd == nil || len(fd.Body.List) != 1 {
			return "", fmt.Errorf("shape not recognised: UnaryOperator.Precedence")
		}
		ret, ok := fd.Body.List[0].(*ast.ReturnStmt)
		if !ok || len(ret.Results) != 1 {
			return "", fmt.Errorf("shape not recognised: UnaryOperator.Precedence: return")
		}
		bl, ok := ret.Results[0].(*ast.BasicLit)
		if !ok || bl.Kind != token.INT {
			return "", fmt.Errorf("shape not recognised: UnaryOperator.Precedence: value")
		}
		uprec, err = strconv.Atoi(bl.Value)
		if err != nil {
			return "", err
		}
	}

	// 5./6. parenthesisation conditions
	// `if e, ok := n.<field>.(Operator); ok && <cond> { s += "(" + n.<field>.String() + ")" } else { s += n.<field>.String() }`
	parenCond := func(fd *ast.FuncDecl, field string) (string, error) {
		if fd == nil {
			return "", fmt.Errorf("method not found")
		}
		recv := fd.Recv.List[0].Names[0].Name
		var found *ast.IfStmt
		count := 0
		ast.Inspect(fd.Body, func(n ast.Node) bool {
			is, ok := n.(*ast.IfStmt)
			if !ok || is.Init == nil {
				return true
			}
			as, ok := is.Init.(*ast.AssignStmt)
			if !ok || as.Tok != token.DEFINE || len(as.Lhs) != 2 || len(as.Rhs) != 1 {
				return true
			}
			ta, ok := as.Rhs[0].(*ast.TypeAssertExpr)
			if !ok {
				return true
			}
			if id, ok := ta.Type.(*ast.Ident); !ok || id.Name != "Operator" {
				return true
			}
			sel, ok := ta.X.(*ast.SelectorExpr)
			if !ok || sel.Sel.Name != field {
				return true
			}
			if id, ok := sel.X.(*ast.Ident); !ok || id.Name != recv {
				return true
			}
			found = is
			count++
			return true
		})
		if count != 1 {
			return "", fmt.Errorf("%d type assertions of %s.%s to Operator", count, recv, field)
		}
		as := found.Init.(*ast.AssignStmt)
		child := as.Lhs[0].(*ast.Ident).Name
		okName := as.Lhs[1].(*ast.Ident).Name
		be, ok := found.Cond.(*ast.BinaryExpr)
		if !ok || be.Op != token.LAND {
			return "", fmt.Errorf("condition is not `ok && …`")
		}
		if id, ok := be.X.(*ast.Ident); !ok || id.Name != okName {
			return "", fmt.Errorf("condition is not `ok && …`")
		}
		// the two branches: parenthesised / plain
		wantParen := func(b *ast.BlockStmt, paren bool) bool {
			if b == nil || len(b.List) != 1 {
				return false
			}
			as, ok := b.List[0].(*ast.AssignStmt)
			if !ok || as.Tok != token.ADD_ASSIGN || len(as.Rhs) != 1 {
				return false
			}
			var b2 strings.Builder
			var flat func(e ast.Expr) bool
			flat = func(e ast.Expr) bool {
				switch x := e.(type) {
				case *ast.BinaryExpr:
					return x.Op == token.ADD && flat(x.X) && flat(x.Y)
				case *ast.BasicLit:
					s, err := strconv.Unquote(x.Value)
					b2.WriteString(s)
					return err == nil
				case *ast.CallExpr:
					sel, ok := x.Fun.(*ast.SelectorExpr)
					if !ok || sel.Sel.Name != "String" || len(x.Args) != 0 {
						return false
					}
					in, ok := sel.X.(*ast.SelectorExpr)
					if !ok || in.Sel.Name != field {
						return false
					}
					b2.WriteString("<child>")
					return true
				}
				return false
			}
			if !flat(as.Rhs[0]) {
				return false
			}
			if paren {
				return b2.String() == "(<child>)"
			}
			return b2.String() == "<child>"
		}
		els, _ := found.Else.(*ast.BlockStmt)
		if !wantParen(found.Body, true) || !wantParen(els, false) {
			return "", fmt.Errorf("branches are not `s += \"(\" + child + \")\"` / `s += child`")
		}
		var tr func(e ast.Expr) (string, error)
		term := func(e ast.Expr) (string, bool) {
			switch x := e.(type) {
			case *ast.BasicLit:
				if x.Kind == token.INT {
					if v, err := strconv.Atoi(x.Value); err == nil && v >= 0 {
						return strconv.Itoa(v), true
					}
				}
			case *ast.CallExpr:
				sel, ok := x.Fun.(*ast.SelectorExpr)
				if ok && sel.Sel.Name == "Precedence" && len(x.Args) == 0 {
					if id, ok := sel.X.(*ast.Ident); ok {
						switch id.Name {
						case child:
							return "child", true
						case recv:
							return "parent", true
						}
					}
				}
			}
			return "", false
		}
		tr = func(e ast.Expr) (string, error) {
			switch x := e.(type) {
			case *ast.ParenExpr:
				return tr(x.X)
			case *ast.BinaryExpr:
				switch x.Op {
				case token.LOR, token.LAND:
					a, err := tr(x.X)
					if err != nil {
						return "", err
					}
					b, err := tr(x.Y)
					if err != nil {
						return "", err
					}
					op := "||"
					if x.Op == token.LAND {
						op = "&&"
					}
					return "(" + a + " " + op + " " + b + ")", nil
				case token.LEQ, token.LSS, token.GEQ, token.GTR, token.EQL, token.NEQ:
					// n.Op ==/!= OperatorX
					if sel, ok := x.X.(*ast.SelectorExpr); ok && sel.Sel.Name == "Op" {
						id, ok1 := sel.X.(*ast.Ident)
						c, ok2 := x.Y.(*ast.Ident)
						if ok1 && ok2 && id.Name == recv && isOp[strings.TrimPrefix(c.Name, "Operator")] && (x.Op == token.EQL || x.Op == token.NEQ) {
							s := "(parentOp == Op." + strings.TrimPrefix(c.Name, "Operator") + ")"
							if x.Op == token.NEQ {
								s = "(!" + s + ")"
							}
							return s, nil
						}
						return "", fmt.Errorf("comparison of Op")
					}
					a, ok1 := term(x.X)
					b, ok2 := term(x.Y)
					if !ok1 || !ok2 {
						return "", fmt.Errorf("comparison operands")
					}
					rel := map[token.Token]string{token.LEQ: "≤", token.LSS: "<", token.GEQ: "≥", token.GTR: ">", token.EQL: "=", token.NEQ: "≠"}[x.Op]
					return "decide (" + a + " " + rel + " " + b + ")", nil
				}
			}
			return "", fmt.Errorf("condition term")
		}
		return tr(be.Y)
	}
	bstr := method("*BinaryOperator", "String")
	left, err := parenCond(bstr, "Expr1")
	if err != nil {
		return "", fmt.Errorf("shape not recognised: BinaryOperator.String, Expr1: %v", err)
	}
	right, err := parenCond(bstr, "Expr2")
	if err != nil {
		return "", fmt.Errorf("shape not recognised: BinaryOperator.String, Expr2: %v", err)
	}
	un, err := parenCond(method("*UnaryOperator", "String"), "Expr")
	if err != nil {
		return "", fmt.Errorf("shape not recognised: UnaryOperator.String, Expr: %v", err)
	}

	var b strings.Builder
	b.WriteString("/-! Operators of ast/ast.go: constants, OperatorType.String, BinaryOperator.Precedence,\n")
	b.WriteString("UnaryOperator.Precedence and the parenthesisation conditions of the two String methods. -/\n")
	b.WriteString("set_option linter.unusedVariables false\nnamespace ScriggoV.Gen.Precedence\n\n")
	b.WriteString("/-- the ast.OperatorType constants, in declaration order -/\ninductive Op where\n")
	for _, o := range ops {
		b.WriteString("  | " + o + "\n")
	}
	b.WriteString("  deriving DecidableEq, Repr\n\n")
	b.WriteString("def Op.all : List Op := [")
	for i, o := range ops {
		if i > 0 {
			b.WriteString(", ")
		}
		b.WriteString(".")
		b.WriteString(o)
	}
	b.WriteString("]\n\n/-- the constant's name without the `Operator` prefix (protocol word) -/\ndef Op.name : Op → String\n")
	for _, o := range ops {
		fmt.Fprintf(&b, "  | .%s => %q\n", o, o)
	}
	b.WriteString("\n/-- OperatorType.String() -/\ndef Op.str : Op → String\n")
	for i, o := range ops {
		fmt.Fprintf(&b, "  | .%s => %s\n", o, strconv.Quote(strs[i]))
	}
	b.WriteString("\n/-- (*BinaryOperator).Precedence(); `none` is the final panic(\"invalid operator type\") -/\ndef binaryPrecedence : Op → Option Nat\n")
	for _, o := range precOrder {
		fmt.Fprintf(&b, "  | .%s => some %d\n", o, prec[o])
	}
	if len(precOrder) < len(ops) {
		b.WriteString("  | _ => none\n")
	}
	fmt.Fprintf(&b, "\n/-- (*UnaryOperator).Precedence() -/\ndef unaryPrecedence : Nat := %d\n", uprec)
	b.WriteString("\n/-- BinaryOperator.String: the left operand, when it is an Operator, is parenthesised iff … -/\n")
	b.WriteString("def binaryLeftParens (parentOp : Op) (parent child : Nat) : Bool := " + left + "\n")
	b.WriteString("\n/-- BinaryOperator.String: the right operand, when it is an Operator, is parenthesised iff … -/\n")
	b.WriteString("def binaryRightParens (parentOp : Op) (parent child : Nat) : Bool := " + right + "\n")
	b.WriteString("\n/-- UnaryOperator.String: the operand, when it is an Operator, is parenthesised iff … -/\n")
	b.WriteString("def unaryParens (parentOp : Op) (parent child : Nat) : Bool := " + un + "\n")
	emitEnum := func(name, doc string, names []string) {
		b.WriteString("\n/-- " + doc + " -/\ninductive " + name + " where\n")
		for _, n := range names {
			b.WriteString("  | " + n + "\n")
		}
		b.WriteString("  deriving DecidableEq, Repr\n\ndef " + name + ".all : List " + name + " := [")
		for i, n := range names {
			if i > 0 {
				b.WriteString(", ")
			}
			b.WriteString("." + n)
		}
		b.WriteString("]\n\ndef " + name + ".name : " + name + " → String\n")
		for _, n := range names {
			fmt.Fprintf(&b, "  | .%s => %q\n", n, n)
		}
	}
	emitEnum("LiteralType", "the ast.LiteralType constants", litKinds)
	emitEnum("ChanDirection", "the ast.ChanDirection constants", chanDirs)
	b.WriteString("\nend ScriggoV.Gen.Precedence\n")
	return b.String(), nil
}
