package main

// Part of generator "VMInt": the decisions of internal/compiler/emitter_expressions.go and
// emitter_util.go that are regular enough to be read off the AST (appended to Gen/VMInt.lean):
//
//   - the range of constants `_emitExpr` turns into immediate operands (`-128 <= v && v <= 127`);
//   - the three `switch op` statements of emitBinaryOp (bit operations; kind == reflect.Int; all other
//     kinds): which emit… function of the builder an operator uses and whether the fresh register z
//     is passed in the place of x;
//   - the condition emitComparison chooses for an operator (signed / unsigned operand kind).
//
// Anything that does not have exactly the expected shape is an error: nothing is guessed.

import (
	"bytes"
	"fmt"
	"go/ast"
	"go/parser"
	"go/printer"
	"go/token"
	"path/filepath"
	"strconv"
	"strings"
)

var srcOps = []struct{ goName, lean string }{
	{"ast.OperatorAddition", "add"}, {"ast.OperatorSubtraction", "sub"}, {"ast.OperatorMultiplication", "mul"},
	{"ast.OperatorDivision", "div"}, {"ast.OperatorModulo", "rem"}, {"ast.OperatorLeftShift", "shl"},
	{"ast.OperatorRightShift", "shr"}, {"ast.OperatorBitAnd", "and"}, {"ast.OperatorBitOr", "or"},
	{"ast.OperatorXor", "xor"}, {"ast.OperatorAndNot", "andNot"},
}

var srcCmps = []struct{ goName, lean string }{
	{"ast.OperatorEqual", "eq"}, {"ast.OperatorNotEqual", "ne"}, {"ast.OperatorLess", "lt"},
	{"ast.OperatorLessEqual", "le"}, {"ast.OperatorGreater", "gt"}, {"ast.OperatorGreaterEqual", "ge"},
}

type emtGen struct {
	fset *token.FileSet
}

func (g *emtGen) src(n ast.Node) string {
	var buf bytes.Buffer
	printer.Fprint(&buf, g.fset, n)
	return buf.String()
}

func (g *emtGen) errf(n ast.Node, format string, args ...any) error {
	pos := ""
	src := ""
	if n != nil {
		p := g.fset.Position(n.Pos())
		pos = fmt.Sprintf("%s:%d: ", filepath.Base(p.Filename), p.Line)
		src = strings.ReplaceAll(g.src(n), "\n", " ")
		if len(src) > 120 {
			src = src[:120] + "…"
		}
	}
	return fmt.Errorf("shape not recognised: %s%s: `%s`", pos, fmt.Sprintf(format, args...), src)
}

func findFunc(f *ast.File, name string) *ast.FuncDecl {
	for _, d := range f.Decls {
		if fd, ok := d.(*ast.FuncDecl); ok && fd.Name.Name == name && fd.Body != nil {
			return fd
		}
	}
	return nil
}

// switchesOn collects, in source order, the `switch <tag> {` statements below n (nested ones included).
func switchesOn(n ast.Node, tag string) []*ast.SwitchStmt {
	var out []*ast.SwitchStmt
	ast.Inspect(n, func(m ast.Node) bool {
		if s, ok := m.(*ast.SwitchStmt); ok && s.Init == nil {
			if id, ok := s.Tag.(*ast.Ident); ok && id.Name == tag {
				out = append(out, s)
			}
		}
		return true
	})
	return out
}

// intLit evaluates `123` / `-123`.
func intLit(e ast.Expr) (int64, bool) {
	neg := false
	if u, ok := e.(*ast.UnaryExpr); ok && u.Op == token.SUB {
		neg, e = true, u.X
	}
	bl, ok := e.(*ast.BasicLit)
	if !ok || bl.Kind != token.INT {
		return 0, false
	}
	v, err := strconv.ParseInt(bl.Value, 0, 64)
	if err != nil {
		return 0, false
	}
	if neg {
		v = -v
	}
	return v, true
}

// immRange finds, in _emitExpr, `case int64:` of the type switch on ti.value and in it the
// condition `lo <= v && v <= hi` guarding `return int8(v), true`.
func (g *emtGen) immRange(fd *ast.FuncDecl) (lo, hi int64, err error) {
	var ts *ast.TypeSwitchStmt
	ast.Inspect(fd.Body, func(n ast.Node) bool {
		if s, ok := n.(*ast.TypeSwitchStmt); ok && ts == nil {
			ts = s
			return false
		}
		return true
	})
	if ts == nil {
		return 0, 0, g.errf(fd.Name, "no type switch in _emitExpr")
	}
	as, ok := ts.Assign.(*ast.AssignStmt)
	if !ok || len(as.Lhs) != 1 || g.src(as.Lhs[0]) != "v" || g.src(as.Rhs[0]) != "ti.value.(type)" {
		return 0, 0, g.errf(ts.Assign, "type switch `v := ti.value.(type)`")
	}
	for _, c := range ts.Body.List {
		cc := c.(*ast.CaseClause)
		if len(cc.List) != 1 || g.src(cc.List[0]) != "int64" {
			continue
		}
		// if canEmitDirectly(reflect.Int, dstType.Kind()) { if lo <= v && v <= hi { return int8(v), true } }
		if len(cc.Body) != 1 {
			return 0, 0, g.errf(cc, "body of `case int64`")
		}
		outer, ok := cc.Body[0].(*ast.IfStmt)
		if !ok || outer.Else != nil || g.src(outer.Cond) != "canEmitDirectly(reflect.Int, dstType.Kind())" || len(outer.Body.List) != 1 {
			return 0, 0, g.errf(cc.Body[0], "guard of the immediate form")
		}
		inner, ok := outer.Body.List[0].(*ast.IfStmt)
		if !ok || inner.Else != nil || len(inner.Body.List) != 1 || g.src(inner.Body.List[0]) != "return int8(v), true" {
			return 0, 0, g.errf(outer.Body.List[0], "immediate form")
		}
		and, ok := inner.Cond.(*ast.BinaryExpr)
		if !ok || and.Op != token.LAND {
			return 0, 0, g.errf(inner.Cond, "range condition")
		}
		l, ok1 := and.X.(*ast.BinaryExpr)
		r, ok2 := and.Y.(*ast.BinaryExpr)
		if !ok1 || !ok2 || l.Op != token.LEQ || r.Op != token.LEQ || g.src(l.Y) != "v" || g.src(r.X) != "v" {
			return 0, 0, g.errf(inner.Cond, "range condition")
		}
		lo, ok1 = intLit(l.X)
		hi, ok2 = intLit(r.Y)
		if !ok1 || !ok2 {
			return 0, 0, g.errf(inner.Cond, "range bounds")
		}
		return lo, hi, nil
	}
	return 0, 0, g.errf(ts, "no `case int64` in the type switch of _emitExpr")
}

type binChoice struct {
	fn   string // emitAdd …
	xIsZ bool
}

// binSwitch reads `switch op { case ast.OperatorX: em.fb.emitY(ky, x|z, y, z, kind[, pos]) … }`.
func (g *emtGen) binSwitch(sw *ast.SwitchStmt) (map[string]binChoice, error) {
	res := map[string]binChoice{}
	var firstArg string
	for _, c := range sw.Body.List {
		cc := c.(*ast.CaseClause)
		if len(cc.List) != 1 || len(cc.Body) != 1 {
			return nil, g.errf(cc, "case of an operator switch")
		}
		opName := g.src(cc.List[0])
		lean := ""
		for _, o := range srcOps {
			if o.goName == opName {
				lean = o.lean
			}
		}
		if lean == "" {
			return nil, g.errf(cc.List[0], "operator")
		}
		es, ok := cc.Body[0].(*ast.ExprStmt)
		if !ok {
			return nil, g.errf(cc.Body[0], "call of an emit function")
		}
		call, ok := es.X.(*ast.CallExpr)
		if !ok {
			return nil, g.errf(cc.Body[0], "call of an emit function")
		}
		fun := g.src(call.Fun)
		if !strings.HasPrefix(fun, "em.fb.emit") {
			return nil, g.errf(call.Fun, "emit function of the builder")
		}
		var args []string
		for _, a := range call.Args {
			args = append(args, g.src(a))
		}
		if len(args) == 6 && args[5] == "pos" {
			args = args[:5]
		}
		if len(args) != 5 || args[0] != "ky" || (args[1] != "x" && args[1] != "z") || args[2] != "y" || args[3] != "z" || args[4] != "kind" {
			return nil, g.errf(call, "arguments (ky, x|z, y, z, kind[, pos])")
		}
		if firstArg == "" {
			firstArg = args[1]
		} else if firstArg != args[1] {
			return nil, g.errf(call, "the cases of one switch pass different registers as x")
		}
		if _, dup := res[lean]; dup {
			return nil, g.errf(cc, "operator twice")
		}
		res[lean] = binChoice{fn: strings.TrimPrefix(fun, "em.fb."), xIsZ: args[1] == "z"}
	}
	return res, nil
}

func (g *emtGen) binTables(fd *ast.FuncDecl, emitFns map[string]bool) (string, error) {
	// the switches on `op` of emitBinaryOp, in source order: [0] the outer one of the bit
	// operations, [1] its inner one, [2] the one under `kind == reflect.Int`, [3] the general one
	sws := switchesOn(fd.Body, "op")
	if len(sws) != 4 {
		return "", g.errf(fd.Name, "%d `switch op` statements in emitBinaryOp, expected 4", len(sws))
	}
	outer := sws[0]
	if len(outer.Body.List) != 1 {
		return "", g.errf(outer, "outer switch of the bit operations")
	}
	occ := outer.Body.List[0].(*ast.CaseClause)
	inside := func(inner, container ast.Node) bool {
		return container.Pos() <= inner.Pos() && inner.End() <= container.End()
	}
	if !inside(sws[1], occ) || inside(sws[2], occ) {
		return "", g.errf(outer, "nesting of the bit-operation switches")
	}
	bit, err := g.binSwitch(sws[1])
	if err != nil {
		return "", err
	}
	var guardOps []string
	for _, e := range occ.List {
		guardOps = append(guardOps, g.src(e))
	}
	for _, o := range srcOps {
		_, in := bit[o.lean]
		listed := false
		for _, s := range guardOps {
			if s == o.goName {
				listed = true
			}
		}
		if in != listed {
			return "", g.errf(occ, "the bit-operation case list and its inner switch disagree on %s", o.goName)
		}
	}
	// the `if kind == reflect.Int { … }` that contains sws[2] and not sws[3]
	var intIf *ast.IfStmt
	ast.Inspect(fd.Body, func(n ast.Node) bool {
		if s, ok := n.(*ast.IfStmt); ok && g.src(s.Cond) == "kind == reflect.Int" && inside(sws[2], s.Body) {
			intIf = s
		}
		return true
	})
	if intIf == nil || inside(sws[3], intIf) || sws[3].Pos() < intIf.End() {
		return "", g.errf(sws[2], "expected `if kind == reflect.Int { … switch op … return }` followed by the general switch")
	}
	if last, ok := intIf.Body.List[len(intIf.Body.List)-1].(*ast.ReturnStmt); !ok || len(last.Results) != 0 {
		return "", g.errf(intIf, "the kind == reflect.Int branch does not end in return")
	}
	intT, err := g.binSwitch(sws[2])
	if err != nil {
		return "", err
	}
	genT, err := g.binSwitch(sws[3])
	if err != nil {
		return "", err
	}
	var b strings.Builder
	b.WriteString("\n/-- the arithmetic, shift and bit operators of `emitBinaryOp` (ast.OperatorX) -/\ninductive SrcOp\n ")
	for _, o := range srcOps {
		b.WriteString(" | " + o.lean)
	}
	b.WriteString("\n  deriving DecidableEq, Repr, Inhabited\n")
	table := func(name, doc string, t map[string]binChoice) error {
		fmt.Fprintf(&b, "\n/-- %s: the emit function called and whether the register `z` is passed as `x` -/\ndef %s : SrcOp → Option (EmitFn × Bool)\n", doc, name)
		for _, o := range srcOps {
			c, ok := t[o.lean]
			if !ok {
				fmt.Fprintf(&b, "  | .%s => none\n", o.lean)
				continue
			}
			if !emitFns[c.fn] {
				return fmt.Errorf("shape not recognised: emitBinaryOp calls %s, which is not a translated emit function", c.fn)
			}
			fmt.Fprintf(&b, "  | .%s => some (.%s, %v)\n", o.lean, c.fn, c.xIsZ)
		}
		return nil
	}
	if err := table("binEmitBit", "`emitBinaryOp`, `switch op` of the bit operations (any kind, `z` is the destination)", bit); err != nil {
		return "", err
	}
	if err := table("binEmitInt", "`emitBinaryOp`, `switch op` under `kind == reflect.Int`", intT); err != nil {
		return "", err
	}
	if err := table("binEmitGen", "`emitBinaryOp`, `switch op` for the other kinds (between `changeRegister(x, z)` and `changeRegister(z, reg)`)", genT); err != nil {
		return "", err
	}
	return b.String(), nil
}

// condAssign reads `condition = runtime.ConditionX` as the first statement of a case body.
func (g *emtGen) condAssign(cc *ast.CaseClause, conds map[string]string) (string, error) {
	if len(cc.Body) == 0 {
		return "", g.errf(cc, "case without body")
	}
	as, ok := cc.Body[0].(*ast.AssignStmt)
	if !ok || as.Tok != token.ASSIGN || len(as.Lhs) != 1 || g.src(as.Lhs[0]) != "condition" {
		return "", g.errf(cc.Body[0], "assignment to condition")
	}
	name := strings.TrimPrefix(g.src(as.Rhs[0]), "runtime.")
	lean, ok := conds[name]
	if !ok {
		return "", g.errf(as.Rhs[0], "integer condition")
	}
	// what follows may only concern interface operands
	for _, s := range cc.Body[1:] {
		ifs, ok := s.(*ast.IfStmt)
		if !ok || g.src(ifs.Cond) != "xKind == reflect.Interface || yKind == reflect.Interface" {
			return "", g.errf(s, "statement after the condition")
		}
	}
	return lean, nil
}

func (g *emtGen) cmpTable(fd *ast.FuncDecl, conds map[string]string) (string, error) {
	sws := switchesOn(fd.Body, "op")
	if len(sws) != 3 {
		return "", g.errf(fd.Name, "%d `switch op` statements in emitComparison, expected 3", len(sws))
	}
	signed := map[string]string{}
	unsigned := map[string]string{}
	var def *ast.CaseClause
	for _, c := range sws[0].Body.List {
		cc := c.(*ast.CaseClause)
		if cc.List == nil {
			def = cc
			continue
		}
		if len(cc.List) != 1 {
			return "", g.errf(cc, "case of emitComparison")
		}
		lean, err := g.condAssign(cc, conds)
		if err != nil {
			return "", err
		}
		op := g.src(cc.List[0])
		signed[op], unsigned[op] = lean, lean
	}
	if def == nil || len(def.Body) != 2 || g.src(def.Body[0]) != "k := tx.Kind()" {
		return "", g.errf(sws[0], "default case of emitComparison")
	}
	ifs, ok := def.Body[1].(*ast.IfStmt)
	if !ok || g.src(ifs.Cond) != "reflect.Uint <= k && k <= reflect.Uintptr" || ifs.Else == nil {
		return "", g.errf(def.Body[1], "signed/unsigned split")
	}
	els, ok := ifs.Else.(*ast.BlockStmt)
	if !ok || len(ifs.Body.List) != 1 || len(els.List) != 1 || ifs.Body.List[0] != ast.Stmt(sws[1]) || els.List[0] != ast.Stmt(sws[2]) {
		return "", g.errf(ifs, "signed/unsigned split")
	}
	for i, t := range []map[string]string{unsigned, signed} {
		for _, c := range sws[1+i].Body.List {
			cc := c.(*ast.CaseClause)
			if cc.List == nil {
				if len(cc.Body) != 1 || !strings.HasPrefix(g.src(cc.Body[0]), "panic(") {
					return "", g.errf(cc, "default of an ordering switch")
				}
				continue
			}
			if len(cc.List) != 1 || len(cc.Body) != 1 {
				return "", g.errf(cc, "case of an ordering switch")
			}
			lean, err := g.condAssign(cc, conds)
			if err != nil {
				return "", err
			}
			op := g.src(cc.List[0])
			if _, dup := t[op]; dup {
				return "", g.errf(cc, "operator twice")
			}
			t[op] = lean
		}
	}
	var b strings.Builder
	b.WriteString("\n/-- the comparison operators of `emitComparison` -/\ninductive SrcCmp\n ")
	for _, o := range srcCmps {
		b.WriteString(" | " + o.lean)
	}
	b.WriteString("\n  deriving DecidableEq, Repr, Inhabited\n")
	b.WriteString("\n/-- `emitComparison`: the condition of the `OpIfInt` instruction for an operator; the flag says that the\nkind of the left operand is within `reflect.Uint … reflect.Uintptr` -/\ndef cmpCond : SrcCmp → Bool → Cond\n")
	for _, o := range srcCmps {
		s, ok1 := signed[o.goName]
		u, ok2 := unsigned[o.goName]
		if !ok1 || !ok2 {
			return "", g.errf(fd.Name, "emitComparison has no condition for %s", o.goName)
		}
		fmt.Fprintf(&b, "  | .%s, false => .%s\n  | .%s, true => .%s\n", o.lean, s, o.lean, u)
	}
	return b.String(), nil
}

var lenConds = []struct{ goName, lean string }{
	{"ConditionLenEqual", "lenEqual"}, {"ConditionLenNotEqual", "lenNotEqual"}, {"ConditionLenLess", "lenLess"},
	{"ConditionLenLessEqual", "lenLessEqual"}, {"ConditionLenGreater", "lenGreater"}, {"ConditionLenGreaterEqual", "lenGreaterEqual"},
}

// invertedTable reads `switch op { case ast.OperatorX: return ast.OperatorY … }` of invertedOperatorType.
func (g *emtGen) invertedTable(fd *ast.FuncDecl) (string, error) {
	sws := switchesOn(fd.Body, "op")
	if len(sws) != 1 || len(fd.Body.List) != 2 || fd.Body.List[0] != ast.Stmt(sws[0]) {
		return "", g.errf(fd.Name, "body of invertedOperatorType (one `switch op`, then panic)")
	}
	if !strings.HasPrefix(g.src(fd.Body.List[1]), "panic(") {
		return "", g.errf(fd.Body.List[1], "statement after the switch of invertedOperatorType")
	}
	lean := func(name string) string {
		for _, o := range srcCmps {
			if o.goName == name {
				return o.lean
			}
		}
		return ""
	}
	t := map[string]string{}
	for _, c := range sws[0].Body.List {
		cc := c.(*ast.CaseClause)
		if len(cc.List) != 1 || len(cc.Body) != 1 {
			return "", g.errf(cc, "case of invertedOperatorType")
		}
		ret, ok := cc.Body[0].(*ast.ReturnStmt)
		if !ok || len(ret.Results) != 1 {
			return "", g.errf(cc.Body[0], "return of an operator")
		}
		from, to := lean(g.src(cc.List[0])), lean(g.src(ret.Results[0]))
		if from == "" || to == "" {
			return "", g.errf(cc, "comparison operators")
		}
		if _, dup := t[from]; dup {
			return "", g.errf(cc, "operator twice")
		}
		t[from] = to
	}
	var b strings.Builder
	b.WriteString("\n/-- `invertedOperatorType` (emitter.go): the operator `emitCondition` uses after swapping the operands -/\ndef inverted : SrcCmp → SrcCmp\n")
	for _, o := range srcCmps {
		to, ok := t[o.lean]
		if !ok {
			return "", g.errf(fd.Name, "invertedOperatorType has no case for %s", o.goName)
		}
		fmt.Fprintf(&b, "  | .%s => .%s\n", o.lean, to)
	}
	return b.String(), nil
}

// lenCondTable reads the `switch op` of emitCondition (comparison of the length of a string).
func (g *emtGen) lenCondTable(fd *ast.FuncDecl) (string, error) {
	sws := switchesOn(fd.Body, "op")
	if len(sws) != 1 {
		return "", g.errf(fd.Name, "%d `switch op` statements in emitCondition, expected 1", len(sws))
	}
	conds := map[string]string{}
	for _, c := range lenConds {
		conds[c.goName] = c.lean
	}
	t := map[string]string{}
	for _, c := range sws[0].Body.List {
		cc := c.(*ast.CaseClause)
		if cc.List == nil {
			if len(cc.Body) != 1 || !strings.HasPrefix(g.src(cc.Body[0]), "panic(") {
				return "", g.errf(cc, "default of the length switch")
			}
			continue
		}
		if len(cc.List) != 1 || len(cc.Body) != 1 {
			return "", g.errf(cc, "case of the length switch")
		}
		lean, err := g.condAssign(cc, conds)
		if err != nil {
			return "", err
		}
		op := g.src(cc.List[0])
		if _, dup := t[op]; dup {
			return "", g.errf(cc, "operator twice")
		}
		t[op] = lean
	}
	var b strings.Builder
	b.WriteString("\n/-- the `ConditionLen…` conditions of `OpIfString` -/\ninductive LenCond\n ")
	for _, c := range lenConds {
		b.WriteString(" | " + c.lean)
	}
	b.WriteString("\n  deriving DecidableEq, Repr, Inhabited\n")
	b.WriteString("\n/-- `emitCondition`, comparison of `len(s)` (`s` a string) with a value: the condition for an operator\n(after `invertedOperatorType` when `len(s)` is the right operand) -/\ndef lenCond : SrcCmp → LenCond\n")
	for _, o := range srcCmps {
		l, ok := t[o.goName]
		if !ok {
			return "", g.errf(fd.Name, "emitCondition has no length condition for %s", o.goName)
		}
		fmt.Fprintf(&b, "  | .%s => .%s\n", o.lean, l)
	}
	return b.String(), nil
}

// ifLenTable reads, in `case OpIfString, -OpIfString:` of (*VM).run, the block
//
//	v1 := vm.string(a); v2 := int(vm.intk(c, op < 0)); switch bb { case ConditionLenX: cond = len(v1) OP v2 … }
func (g *emtGen) ifLenTable(runFile *ast.File) (string, error) {
	var cc *ast.CaseClause
	ast.Inspect(runFile, func(n ast.Node) bool {
		if c, ok := n.(*ast.CaseClause); ok && len(c.List) == 2 && g.src(c.List[0]) == "OpIfString" && g.src(c.List[1]) == "-OpIfString" {
			cc = c
			return false
		}
		return true
	})
	if cc == nil {
		return "", fmt.Errorf("shape not recognised: no `case OpIfString, -OpIfString:` in run.go")
	}
	var block *ast.BlockStmt
	ast.Inspect(cc, func(n ast.Node) bool {
		if ifs, ok := n.(*ast.IfStmt); ok && g.src(ifs.Cond) == "bb <= ConditionLenGreaterEqual" {
			block = ifs.Body
		}
		return true
	})
	if block == nil || len(block.List) != 3 || g.src(block.List[0]) != "v1 := vm.string(a)" || g.src(block.List[1]) != "v2 := int(vm.intk(c, op < 0))" {
		return "", g.errf(cc, "length block of OpIfString")
	}
	// the branch before it must end at ConditionGreaterEqual, the first Len condition must follow it
	sw, ok := block.List[2].(*ast.SwitchStmt)
	if !ok || g.src(sw.Tag) != "bb" {
		return "", g.errf(block.List[2], "switch bb")
	}
	ops := map[string]string{"==": "l == v", "!=": "l != v", "<": "decide (l < v)", "<=": "decide (l ≤ v)", ">": "decide (l > v)", ">=": "decide (l ≥ v)"}
	t := map[string]string{}
	for _, c := range sw.Body.List {
		k := c.(*ast.CaseClause)
		if len(k.List) != 1 || len(k.Body) != 1 {
			return "", g.errf(k, "case of the length switch of OpIfString")
		}
		as, ok := k.Body[0].(*ast.AssignStmt)
		if !ok || as.Tok != token.ASSIGN || len(as.Lhs) != 1 || g.src(as.Lhs[0]) != "cond" {
			return "", g.errf(k.Body[0], "assignment to cond")
		}
		be, ok := as.Rhs[0].(*ast.BinaryExpr)
		if !ok || g.src(be.X) != "len(v1)" || g.src(be.Y) != "v2" || ops[be.Op.String()] == "" {
			return "", g.errf(as.Rhs[0], "len(v1) OP v2")
		}
		name := g.src(k.List[0])
		if _, dup := t[name]; dup {
			return "", g.errf(k, "condition twice")
		}
		t[name] = ops[be.Op.String()]
	}
	var b strings.Builder
	b.WriteString("\n/-- `case OpIfString, -OpIfString:` with a `ConditionLen…` condition: `l` is `len(vm.string(a))`,\n`v` is `int(vm.intk(c, op < 0))`; whether the next instruction is skipped -/\ndef vmIfLen : LenCond → Int → Int → Bool\n")
	for _, c := range lenConds {
		term, ok := t[c.goName]
		if !ok {
			return "", g.errf(sw, "OpIfString has no case for %s", c.goName)
		}
		fmt.Fprintf(&b, "  | .%s, l, v => %s\n", c.lean, term)
	}
	return b.String(), nil
}

// genEmitterTables returns the Lean text appended to Gen/VMInt.lean.
func genEmitterTables(repo string, emitFns []string, conds []vmOpSpec) (string, error) {
	g := &emtGen{fset: token.NewFileSet()}
	parse := func(name string) (*ast.File, error) {
		return parser.ParseFile(g.fset, filepath.Join(repo, name), nil, 0)
	}
	exprs, err := parse("internal/compiler/emitter_expressions.go")
	if err != nil {
		return "", err
	}
	util, err := parse("internal/compiler/emitter_util.go")
	if err != nil {
		return "", err
	}
	var b strings.Builder
	fd := findFunc(exprs, "_emitExpr")
	if fd == nil {
		return "", fmt.Errorf("shape not recognised: no _emitExpr in emitter_expressions.go")
	}
	lo, hi, err := g.immRange(fd)
	if err != nil {
		return "", err
	}
	fmt.Fprintf(&b, "\n/-- `_emitExpr`: an `int64` constant `v` becomes an immediate operand when `immMin <= v && v <= immMax` -/\ndef immMin : Int := %d\ndef immMax : Int := %d\n", lo, hi)
	fd = findFunc(exprs, "emitBinaryOp")
	if fd == nil {
		return "", fmt.Errorf("shape not recognised: no emitBinaryOp in emitter_expressions.go")
	}
	fns := map[string]bool{}
	for _, f := range emitFns {
		fns[f] = true
	}
	s, err := g.binTables(fd, fns)
	if err != nil {
		return "", err
	}
	b.WriteString(s)
	fd = findFunc(util, "emitComparison")
	if fd == nil {
		return "", fmt.Errorf("shape not recognised: no emitComparison in emitter_util.go")
	}
	cm := map[string]string{}
	for _, c := range conds {
		cm[c.goName] = c.lean
	}
	s, err = g.cmpTable(fd, cm)
	if err != nil {
		return "", err
	}
	b.WriteString(s)
	// conditions: invertedOperatorType and emitCondition (emitter.go), OpIfString (run.go)
	emitterFile, err := parse("internal/compiler/emitter.go")
	if err != nil {
		return "", err
	}
	runFile, err := parse("internal/runtime/run.go")
	if err != nil {
		return "", err
	}
	fd = findFunc(emitterFile, "invertedOperatorType")
	if fd == nil {
		return "", fmt.Errorf("shape not recognised: no invertedOperatorType in emitter.go")
	}
	if s, err = g.invertedTable(fd); err != nil {
		return "", err
	}
	b.WriteString(s)
	fd = findFunc(emitterFile, "emitCondition")
	if fd == nil {
		return "", fmt.Errorf("shape not recognised: no emitCondition in emitter.go")
	}
	if s, err = g.lenCondTable(fd); err != nil {
		return "", err
	}
	b.WriteString(s)
	if s, err = g.ifLenTable(runFile); err != nil {
		return "", err
	}
	b.WriteString(s)
	return b.String(), nil
}
