package main

// Generator "SharedWrites" (property C10): the frame fact "a run does not write the compiled
// artefact". It type-checks /repo's packages from source (go/types; std packages through the
// "source" importer, which works offline) and lists, for every function of
// internal/runtime and of programs.go / templates.go:
//
//   writeSites      every assignment, op-assignment, ++/--, copy/delete/clear/append, address-of
//                   and foreign pointer-receiver / Set* / sync / atomic method call whose target
//                   location lies inside (or is reachable from) a value of a shared type
//                   (Function, NativeFunction, Registers, Global, Program, Template, and callable,
//                   whose lazy caches matter when one is shared), unless the target is a local
//                   object freshly built in the same function (`x := &T{…}`; constructor code);
//   pkgVarWrites    the same for package-level variables (a package variable is shared by all runs
//                   of all artefacts);
//   callableAllocs  every composite literal of type callable with its enclosing function;
//   generalStores   in the whole module: every store into Function.Values.General and every call of
//                   the function that performs it, with the text of the stored argument;
//   argsPoolFill    for the loop of callNative that fills a pooled argument slice: whether every
//                   path through the loop body overwrites args[i].
//
// One level of aliasing is followed (a local assigned or ranged from a reference-typed shared
// expression is itself treated as shared). Anything whose shape is not understood is an error.

import (
	"bytes"
	"crypto/sha256"
	"fmt"
	"go/ast"
	"go/importer"
	"go/parser"
	"go/printer"
	"go/token"
	"go/types"
	"os"
	"path/filepath"
	"sort"
	"strings"
)

func init() {
	generators = append(generators, generator{name: "SharedWrites", run: genSharedWrites})
}

const swModule = "github.com/open2b/scriggo"

// swLoader type-checks packages of the module from source.
type swLoader struct {
	fset  *token.FileSet
	std   types.ImporterFrom
	repo  string
	pkgs  map[string]*types.Package
	infos map[string]*types.Info
	files map[string][]*ast.File
	errs  []string
}

func (m *swLoader) Import(path string) (*types.Package, error) { return m.ImportFrom(path, "", 0) }

func (m *swLoader) ImportFrom(path, dir string, mode types.ImportMode) (*types.Package, error) {
	if path == swModule || strings.HasPrefix(path, swModule+"/") {
		if p, ok := m.pkgs[path]; ok {
			return p, nil
		}
		return m.load(path)
	}
	return m.std.ImportFrom(path, dir, mode)
}

func swIsVerifFile(f *ast.File) bool {
	for _, cg := range f.Comments {
		if cg.Pos() >= f.Package {
			break
		}
		for _, c := range cg.List {
			if strings.HasPrefix(c.Text, "//go:build") && strings.Contains(c.Text, "verif") {
				return true
			}
		}
	}
	return false
}

func (m *swLoader) load(path string) (*types.Package, error) {
	dir := filepath.Join(m.repo, strings.TrimPrefix(path, swModule))
	ents, err := os.ReadDir(dir)
	if err != nil {
		return nil, err
	}
	var files []*ast.File
	for _, e := range ents {
		n := e.Name()
		if e.IsDir() || !strings.HasSuffix(n, ".go") || strings.HasSuffix(n, "_test.go") {
			continue
		}
		f, err := parser.ParseFile(m.fset, filepath.Join(dir, n), nil, parser.ParseComments)
		if err != nil {
			return nil, err
		}
		if swIsVerifFile(f) { // hooks (build tag verif) are not part of the library
			continue
		}
		files = append(files, f)
	}
	info := &types.Info{
		Types:      map[ast.Expr]types.TypeAndValue{},
		Uses:       map[*ast.Ident]types.Object{},
		Defs:       map[*ast.Ident]types.Object{},
		Selections: map[*ast.SelectorExpr]*types.Selection{},
	}
	cfg := types.Config{Importer: m, Error: func(err error) { m.errs = append(m.errs, err.Error()) }}
	p, _ := cfg.Check(path, m.fset, files, info)
	m.pkgs[path] = p
	m.infos[path] = info
	m.files[path] = files
	return p, nil
}

type swSite struct {
	file, fn, kind, target, lhs, hash string
	// what is written there (gen_sharedwrites_values.go): the type of the stored value and whether
	// a value of that type can carry state of one run
	vtype  string
	perRun bool
}

type swScan struct {
	m       *swLoader
	info    *types.Info
	pkg     *types.Package
	shared  map[*types.TypeName]bool
	local   map[string]bool // import paths whose method bodies are scanned themselves
	fnName  string
	file    string
	fresh   map[types.Object]bool // locals built by a composite literal / new in this function
	tainted map[types.Object]bool // locals aliasing shared reference-typed values
	curCall *ast.CallExpr // the method call being recorded by add (call:… sites)
	sites   *[]swSite
	pkgvars *[]swSite
	allocs  *[]swSite
	visit   func(n ast.Node) bool
}

func swText(fset *token.FileSet, n ast.Node) string {
	var b bytes.Buffer
	printer.Fprint(&b, fset, n)
	return strings.Join(strings.Fields(b.String()), " ")
}

// swHash identifies a statement by the head of its normalised text (the first 96 bytes: enough to
// tell sites apart, short enough that an edit deep inside a long function literal on the
// right-hand side does not re-open the obligation).
func swHash(s string) string {
	if len(s) > 96 {
		s = s[:96]
	}
	h := sha256.Sum256([]byte(s))
	return fmt.Sprintf("%x", h[:6])
}

// sharedNamed returns the shared type name t is, or points to (one level).
func (s *swScan) sharedNamed(t types.Type) (*types.TypeName, bool) {
	if t == nil {
		return nil, false
	}
	isPtr := false
	if p, ok := t.Underlying().(*types.Pointer); ok {
		t = p.Elem()
		isPtr = true
	}
	if n, ok := t.(*types.Named); ok && s.shared[n.Obj()] {
		return n.Obj(), isPtr
	}
	return nil, false
}

func swIsRef(t types.Type) bool {
	if t == nil {
		return false
	}
	if n, ok := t.(*types.Named); ok && n.Obj().Pkg() != nil && n.Obj().Pkg().Path() == "reflect" && n.Obj().Name() == "Value" {
		return true
	}
	switch t.Underlying().(type) {
	case *types.Slice, *types.Map, *types.Pointer, *types.Chan:
		return true
	}
	return false
}

// swHoldsRef reports whether a value of type t holds a reference to mutable memory (slice, map,
// pointer, channel, reflect.Value, or a struct/array containing one). Interfaces and funcs are
// not followed.
func swHoldsRef(t types.Type, depth int) bool {
	if t == nil || depth > 6 {
		return false
	}
	if swIsRef(t) {
		return true
	}
	switch u := t.Underlying().(type) {
	case *types.Struct:
		for i := 0; i < u.NumFields(); i++ {
			if swHoldsRef(u.Field(i).Type(), depth+1) {
				return true
			}
		}
	case *types.Array:
		return swHoldsRef(u.Elem(), depth+1)
	}
	return false
}

// reach reports whether the location (or reference value) denoted by e lies inside, or is
// reachable from, a shared object; target names the shared type and field first met.
func (s *swScan) reach(e ast.Expr) (target string, ok bool) {
	switch e := e.(type) {
	case *ast.ParenExpr:
		return s.reach(e.X)
	case *ast.Ident:
		if obj := s.info.Uses[e]; obj != nil && s.tainted[obj] {
			return "alias:" + e.Name, true
		}
		if s.isPkgVar(e) && swHoldsRef(s.info.TypeOf(e), 0) {
			return "var " + e.Name, true
		}
		return "", false
	case *ast.SelectorExpr:
		if sel := s.info.Selections[e]; sel != nil && sel.Kind() == types.FieldVal {
			if tn, isPtr := s.sharedNamed(s.info.TypeOf(e.X)); tn != nil && isPtr {
				return tn.Name() + "." + e.Sel.Name, true
			}
			if t, ok := s.reach(e.X); ok {
				return t, true
			}
			// a field promoted through an embedded pointer to a shared type
			return "", false
		}
		return "", false // qualified identifier or method value
	case *ast.IndexExpr:
		return s.reach(e.X)
	case *ast.SliceExpr:
		return s.reach(e.X)
	case *ast.StarExpr:
		if tn, isPtr := s.sharedNamed(s.info.TypeOf(e.X)); tn != nil && isPtr {
			return tn.Name() + ".*", true
		}
		return s.reach(e.X)
	case *ast.TypeAssertExpr:
		return s.reach(e.X)
	case *ast.CallExpr:
		return "", false
	}
	return "", false
}

// rootIdent returns the identifier a location chain starts from and whether the chain stays
// inside that variable's own storage (only struct fields and array elements).
func (s *swScan) rootIdent(e ast.Expr) (*ast.Ident, bool) {
	own := true
	for {
		switch x := e.(type) {
		case *ast.ParenExpr:
			e = x.X
		case *ast.Ident:
			return x, own
		case *ast.SelectorExpr:
			if sel := s.info.Selections[x]; sel == nil {
				// pkg.Var
				return x.Sel, own
			}
			if t := s.info.TypeOf(x.X); t != nil {
				if _, ok := t.Underlying().(*types.Pointer); ok {
					// x.X is a pointer: for a fresh `x := &T{}` this is still the fresh object
					if id, ok2 := x.X.(*ast.Ident); ok2 {
						return id, own
					}
					own = false
				}
			}
			e = x.X
		case *ast.IndexExpr:
			if t := s.info.TypeOf(x.X); t != nil {
				if _, ok := t.Underlying().(*types.Array); !ok {
					own = false
				}
			}
			e = x.X
		case *ast.SliceExpr:
			own = false
			e = x.X
		case *ast.StarExpr:
			own = false
			e = x.X
		default:
			return nil, false
		}
	}
}

func (s *swScan) isPkgVar(id *ast.Ident) bool {
	if id == nil {
		return false
	}
	obj := s.info.Uses[id]
	if obj == nil {
		obj = s.info.Defs[id]
	}
	v, ok := obj.(*types.Var)
	return ok && !v.IsField() && v.Pkg() != nil && v.Parent() == v.Pkg().Scope()
}

func (s *swScan) add(kind string, loc ast.Expr, stmt ast.Node, forcedTarget string) {
	id, own := s.rootIdent(loc)
	if id != nil && own {
		if obj := s.info.Uses[id]; obj != nil && s.fresh[obj] {
			return // constructor code: the object is not yet visible to anybody else
		}
	}
	site := swSite{file: s.file, fn: s.fnName, kind: kind, lhs: swText(s.m.fset, loc), hash: swHash(swText(s.m.fset, stmt))}
	if s.isPkgVar(id) {
		site.target = "var " + id.Name
		*s.pkgvars = append(*s.pkgvars, site)
		return
	}
	t, ok := s.reach(loc)
	if forcedTarget != "" {
		t, ok = forcedTarget, true
	}
	if !ok {
		return
	}
	site.target = t
	site.vtype, site.perRun = s.storedValue(loc, stmt)
	*s.sites = append(*s.sites, site)
}

// written handles a location that is assigned to.
func (s *swScan) written(kind string, lhs ast.Expr, stmt ast.Node) {
	if id, ok := lhs.(*ast.Ident); ok {
		if id.Name == "_" {
			return
		}
		if s.isPkgVar(id) {
			s.add(kind, lhs, stmt, "")
		}
		return // a plain local variable
	}
	s.add(kind, lhs, stmt, "")
}

func (s *swScan) taintFrom(lhs ast.Expr, rhs ast.Expr) {
	id, ok := lhs.(*ast.Ident)
	if !ok || id.Name == "_" {
		return
	}
	obj := s.info.Defs[id]
	if obj == nil {
		obj = s.info.Uses[id]
	}
	if obj == nil || !swIsRef(obj.Type()) {
		return
	}
	if tn, _ := s.sharedNamed(obj.Type()); tn != nil {
		return // pointers to shared types are recognised by their type anyway
	}
	if _, ok := s.reach(rhs); ok {
		s.tainted[obj] = true
	}
}

func swIsFreshExpr(e ast.Expr) bool {
	switch x := e.(type) {
	case *ast.CompositeLit:
		return true
	case *ast.UnaryExpr:
		if x.Op == token.AND {
			_, ok := x.X.(*ast.CompositeLit)
			return ok
		}
	case *ast.CallExpr:
		if id, ok := x.Fun.(*ast.Ident); ok && id.Name == "new" {
			return true
		}
	}
	return false
}

var swMutatingValueMethods = map[string]bool{"Set": true, "SetBool": true, "SetBytes": true, "SetCap": true, "SetComplex": true,
	"SetFloat": true, "SetInt": true, "SetIterKey": true, "SetIterValue": true, "SetLen": true, "SetMapIndex": true,
	"SetPointer": true, "SetString": true, "SetUint": true, "SetZero": true, "Grow": true, "Clear": true, "Close": true, "Send": true, "TrySend": true}

func (s *swScan) call(c *ast.CallExpr, stmt ast.Node) {
	switch f := c.Fun.(type) {
	case *ast.Ident:
		if _, isBuiltin := s.info.Uses[f].(*types.Builtin); isBuiltin && len(c.Args) > 0 {
			switch f.Name {
			case "copy", "delete", "clear", "append":
				if _, ok := s.reach(c.Args[0]); ok || s.isPkgVarExpr(c.Args[0]) {
					if f.Name == "append" {
						// `x = append(x, …)` is already listed as an assignment to x
						if as, ok := stmt.(*ast.AssignStmt); ok && len(as.Lhs) == 1 && swText(s.m.fset, as.Lhs[0]) == swText(s.m.fset, c.Args[0]) {
							return
						}
					}
					s.add("builtin:"+f.Name, c.Args[0], stmt, "")
				}
			}
		}
	case *ast.SelectorExpr:
		sel := s.info.Selections[f]
		if sel == nil || sel.Kind() != types.MethodVal {
			return
		}
		fn, _ := sel.Obj().(*types.Func)
		if fn == nil || fn.Pkg() == nil || s.local[fn.Pkg().Path()] {
			return // methods of the scanned packages are scanned themselves
		}
		sig := fn.Type().(*types.Signature)
		if sig.Recv() == nil {
			return
		}
		recvT := sig.Recv().Type()
		if _, isIface := recvT.Underlying().(*types.Interface); isIface {
			return
		}
		_, ptrRecv := recvT.(*types.Pointer)
		mut := ptrRecv
		if fn.Pkg().Path() == "reflect" && swMutatingValueMethods[fn.Name()] {
			mut = true
		}
		if !mut {
			return
		}
		if _, ok := s.reach(f.X); ok || s.isPkgVarExpr(f.X) {
			s.curCall = c
			s.add("call:"+fn.Name(), f.X, stmt, "")
			s.curCall = nil
		}
	}
}

func (s *swScan) isPkgVarExpr(e ast.Expr) bool {
	id, _ := s.rootIdent(e)
	return s.isPkgVar(id)
}

func (s *swScan) scanFunc(name string, body *ast.BlockStmt) {
	s.fnName = name
	s.fresh = map[types.Object]bool{}
	s.tainted = map[types.Object]bool{}
	// pass 1: fresh locals and aliases (order-insensitive on purpose: over-approximate)
	ast.Inspect(body, func(n ast.Node) bool {
		switch st := n.(type) {
		case *ast.AssignStmt:
			if len(st.Lhs) == len(st.Rhs) {
				for i, l := range st.Lhs {
					if id, ok := l.(*ast.Ident); ok && st.Tok == token.DEFINE && swIsFreshExpr(st.Rhs[i]) {
						if obj := s.info.Defs[id]; obj != nil {
							s.fresh[obj] = true
						}
					}
				}
			}
		case *ast.DeclStmt:
			if gd, ok := st.Decl.(*ast.GenDecl); ok && gd.Tok == token.VAR {
				for _, sp := range gd.Specs {
					vs := sp.(*ast.ValueSpec)
					if len(vs.Values) == 0 { // `var x T`: zero value, local storage
						for _, id := range vs.Names {
							if obj := s.info.Defs[id]; obj != nil && !swIsRef(obj.Type()) {
								s.fresh[obj] = true
							}
						}
					}
				}
			}
		}
		return true
	})
	for round := 0; round < 3; round++ { // aliases of aliases
		ast.Inspect(body, func(n ast.Node) bool {
			switch st := n.(type) {
			case *ast.AssignStmt:
				if len(st.Lhs) == len(st.Rhs) {
					for i, l := range st.Lhs {
						s.taintFrom(l, st.Rhs[i])
					}
				}
			case *ast.RangeStmt:
				if st.Value != nil {
					s.taintFrom(st.Value, st.X)
				}
			case *ast.DeclStmt:
				if gd, ok := st.Decl.(*ast.GenDecl); ok && gd.Tok == token.VAR {
					for _, sp := range gd.Specs {
						vs := sp.(*ast.ValueSpec)
						if len(vs.Values) == len(vs.Names) {
							for i, id := range vs.Names {
								s.taintFrom(id, vs.Values[i])
							}
						}
					}
				}
			}
			return true
		})
	}
	// a fresh local that is later re-assigned from somewhere else is not fresh any more
	ast.Inspect(body, func(n ast.Node) bool {
		if st, ok := n.(*ast.AssignStmt); ok && st.Tok != token.DEFINE {
			for i, l := range st.Lhs {
				if id, ok := l.(*ast.Ident); ok {
					if obj := s.info.Uses[id]; obj != nil && s.fresh[obj] {
						if len(st.Lhs) != len(st.Rhs) || !swIsFreshExpr(st.Rhs[i]) {
							delete(s.fresh, obj)
						}
					}
				}
			}
		}
		return true
	})
	// pass 2: the sites
	var visit func(n ast.Node) bool
	visit = func(n ast.Node) bool {
		switch st := n.(type) {
		case *ast.FuncLit:
			// closures are part of the enclosing function's text; keep scanning
		case *ast.AssignStmt:
			if st.Tok != token.DEFINE {
				for _, l := range st.Lhs {
					s.written("assign", l, st)
				}
			}
			for _, r := range st.Rhs {
				s.exprs(r, st)
			}
			for _, l := range st.Lhs {
				s.exprs(l, st)
			}
			return false
		case *ast.IncDecStmt:
			s.written("incdec", st.X, st)
			s.exprs(st.X, st)
			return false
		case *ast.RangeStmt:
			if st.Tok == token.ASSIGN {
				if st.Key != nil {
					s.written("assign", st.Key, st.Key)
				}
				if st.Value != nil {
					s.written("assign", st.Value, st.Value)
				}
			}
			s.exprs(st.X, st.X)
			ast.Inspect(st.Body, visit)
			return false
		case *ast.ExprStmt:
			s.exprs(st.X, st)
			return false
		case *ast.SendStmt:
			s.exprs(st.Chan, st)
			s.exprs(st.Value, st)
			return false
		case *ast.GoStmt:
			s.exprs(st.Call, st)
			return false
		case *ast.DeferStmt:
			s.exprs(st.Call, st)
			return false
		case *ast.ReturnStmt:
			for _, r := range st.Results {
				s.exprs(r, st)
			}
			return false
		case *ast.IfStmt:
			if st.Init != nil {
				ast.Inspect(st.Init, visit)
			}
			s.exprs(st.Cond, st.Cond)
			ast.Inspect(st.Body, visit)
			if st.Else != nil {
				ast.Inspect(st.Else, visit)
			}
			return false
		case *ast.ForStmt:
			if st.Init != nil {
				ast.Inspect(st.Init, visit)
			}
			if st.Cond != nil {
				s.exprs(st.Cond, st.Cond)
			}
			if st.Post != nil {
				ast.Inspect(st.Post, visit)
			}
			ast.Inspect(st.Body, visit)
			return false
		case *ast.SwitchStmt:
			if st.Init != nil {
				ast.Inspect(st.Init, visit)
			}
			if st.Tag != nil {
				s.exprs(st.Tag, st.Tag)
			}
			ast.Inspect(st.Body, visit)
			return false
		case *ast.TypeSwitchStmt:
			if st.Init != nil {
				ast.Inspect(st.Init, visit)
			}
			ast.Inspect(st.Assign, visit)
			ast.Inspect(st.Body, visit)
			return false
		case *ast.CaseClause:
			for _, e := range st.List {
				s.exprs(e, e)
			}
			for _, b := range st.Body {
				ast.Inspect(b, visit)
			}
			return false
		case *ast.DeclStmt:
			if gd, ok := st.Decl.(*ast.GenDecl); ok && gd.Tok == token.VAR {
				for _, sp := range gd.Specs {
					for _, v := range sp.(*ast.ValueSpec).Values {
						s.exprs(v, st)
					}
				}
			}
			return false
		}
		return true
	}
	s.visit = visit
	ast.Inspect(body, visit)
}

// exprs scans an expression tree (inside statement stmt) for calls, address-of and composite
// literals of type callable.
func (s *swScan) exprs(e ast.Expr, stmt ast.Node) {
	if e == nil {
		return
	}
	ast.Inspect(e, func(n ast.Node) bool {
		switch x := n.(type) {
		case *ast.FuncLit:
			// statements of a closure: scanned as statements of the enclosing function
			ast.Inspect(x.Body, s.visit)
			return false
		case *ast.CallExpr:
			s.call(x, stmt)
		case *ast.UnaryExpr:
			if x.Op == token.AND {
				if _, isLit := x.X.(*ast.CompositeLit); !isLit {
					if _, ok := s.reach(x.X); ok || s.isPkgVarExpr(x.X) {
						s.add("addr", x.X, stmt, "")
					}
				}
			}
		case *ast.CompositeLit:
			if t := s.info.TypeOf(x); t != nil {
				if n, ok := t.(*types.Named); ok && n.Obj().Name() == "callable" && s.shared[n.Obj()] {
					*s.allocs = append(*s.allocs, swSite{file: s.file, fn: s.fnName, kind: "alloc", target: "callable",
						lhs: swText(s.m.fset, x), hash: swHash(swText(s.m.fset, x))})
				}
			}
		}
		return true
	})
}

func swFuncName(fd *ast.FuncDecl, fset *token.FileSet) string {
	if fd.Recv != nil && len(fd.Recv.List) == 1 {
		return "(" + swText(fset, fd.Recv.List[0].Type) + ")." + fd.Name.Name
	}
	return fd.Name.Name
}

func swLeanStr(s string) string {
	var b strings.Builder
	b.WriteByte('"')
	for _, r := range s {
		switch {
		case r == '"':
			b.WriteString("\\\"")
		case r == '\\':
			b.WriteString("\\\\")
		case r < 0x20 || r > 0x7e:
			fmt.Fprintf(&b, "\\u{%x}", r)
		default:
			b.WriteRune(r)
		}
	}
	b.WriteByte('"')
	return b.String()
}

func swEmitSites(b *strings.Builder, name, doc string, sites []swSite) {
	sort.SliceStable(sites, func(i, j int) bool {
		a, c := sites[i], sites[j]
		if a.file != c.file {
			return a.file < c.file
		}
		if a.fn != c.fn {
			return a.fn < c.fn
		}
		if a.lhs != c.lhs {
			return a.lhs < c.lhs
		}
		if a.kind != c.kind {
			return a.kind < c.kind
		}
		return a.hash < c.hash
	})
	fmt.Fprintf(b, "/-- %s -/\ndef %s : List Site := [", doc, name)
	for i, s := range sites {
		if i > 0 {
			b.WriteString(",")
		}
		fmt.Fprintf(b, "\n  ⟨%s, %s, %s, %s, %s, %s⟩", swLeanStr(s.file), swLeanStr(s.fn), swLeanStr(s.kind), swLeanStr(s.target), swLeanStr(s.lhs), swLeanStr(s.hash))
	}
	b.WriteString("]\n\n")
}

func genSharedWrites(repo string) (string, error) {
	fset := token.NewFileSet()
	std, ok := importer.ForCompiler(fset, "source", nil).(types.ImporterFrom)
	if !ok {
		return "", fmt.Errorf("shape not recognised: no source importer")
	}
	m := &swLoader{fset: fset, std: std, repo: repo, pkgs: map[string]*types.Package{}, infos: map[string]*types.Info{}, files: map[string][]*ast.File{}}
	if _, err := m.load(swModule); err != nil {
		return "", err
	}
	if len(m.errs) > 0 {
		return "", fmt.Errorf("shape not recognised: /repo does not type-check: %s", m.errs[0])
	}
	rtPath, cpPath := swModule+"/internal/runtime", swModule+"/internal/compiler"
	rt, cp, root := m.pkgs[rtPath], m.pkgs[cpPath], m.pkgs[swModule]
	if rt == nil || cp == nil || root == nil {
		return "", fmt.Errorf("shape not recognised: packages runtime/compiler/scriggo not loaded")
	}
	shared := map[*types.TypeName]bool{}
	var sharedNames []string
	need := func(p *types.Package, names ...string) error {
		for _, n := range names {
			tn, _ := p.Scope().Lookup(n).(*types.TypeName)
			if tn == nil {
				return fmt.Errorf("shape not recognised: type %s.%s not found", p.Name(), n)
			}
			shared[tn] = true
			sharedNames = append(sharedNames, p.Name()+"."+n)
		}
		return nil
	}
	if err := need(rt, "Function", "NativeFunction", "Registers", "callable"); err != nil {
		return "", err
	}
	if err := need(cp, "Global"); err != nil {
		return "", err
	}
	if err := need(root, "Program", "Template"); err != nil {
		return "", err
	}
	var sites, pkgvars, allocs []swSite
	scan := func(path string, onlyFiles map[string]bool) {
		s := &swScan{m: m, info: m.infos[path], pkg: m.pkgs[path], shared: shared,
			local: map[string]bool{rtPath: true, swModule: true}, sites: &sites, pkgvars: &pkgvars, allocs: &allocs}
		for _, f := range m.files[path] {
			rel, _ := filepath.Rel(repo, fset.Position(f.Package).Filename)
			if onlyFiles != nil && !onlyFiles[rel] {
				continue
			}
			s.file = rel
			for _, d := range f.Decls {
				if fd, ok := d.(*ast.FuncDecl); ok && fd.Body != nil && fd.Name.Name != "init" {
					s.scanFunc(swFuncName(fd, fset), fd.Body)
				}
			}
		}
	}
	scan(rtPath, nil)
	scan(swModule, map[string]bool{"programs.go": true, "templates.go": true})

	// package-level variables holding references to mutable memory
	type refVar struct{ file, name, typ string }
	var refVars []refVar
	listVars := func(path string, onlyFiles map[string]bool) {
		info := m.infos[path]
		for _, f := range m.files[path] {
			rel, _ := filepath.Rel(repo, fset.Position(f.Package).Filename)
			if onlyFiles != nil && !onlyFiles[rel] {
				continue
			}
			for _, d := range f.Decls {
				gd, ok := d.(*ast.GenDecl)
				if !ok || gd.Tok != token.VAR {
					continue
				}
				for _, sp := range gd.Specs {
					for _, id := range sp.(*ast.ValueSpec).Names {
						if obj := info.Defs[id]; obj != nil && id.Name != "_" && swHoldsRef(obj.Type(), 0) {
							refVars = append(refVars, refVar{rel, id.Name, types.TypeString(obj.Type(), func(p *types.Package) string { return p.Name() })})
						}
					}
				}
			}
		}
	}
	listVars(rtPath, nil)
	listVars(swModule, map[string]bool{"programs.go": true, "templates.go": true})
	sort.Slice(refVars, func(i, j int) bool {
		if refVars[i].file != refVars[j].file {
			return refVars[i].file < refVars[j].file
		}
		return refVars[i].name < refVars[j].name
	})

	// stores into Function.Values.General, anywhere in the module
	var stores []swSite
	storeFuncs := map[types.Object]bool{}
	var paths []string
	for p := range m.pkgs {
		paths = append(paths, p)
	}
	sort.Strings(paths)
	isGeneralOfFunction := func(info *types.Info, e ast.Expr) bool {
		// e is X.Values.General (possibly indexed) with X of type (*)Function
		for {
			switch x := e.(type) {
			case *ast.IndexExpr:
				e = x.X
				continue
			case *ast.ParenExpr:
				e = x.X
				continue
			}
			break
		}
		g, ok := e.(*ast.SelectorExpr)
		if !ok || g.Sel.Name != "General" {
			return false
		}
		t := info.TypeOf(g.X)
		if t == nil {
			return false
		}
		n, ok := t.(*types.Named)
		return ok && n.Obj().Name() == "Registers" && n.Obj().Pkg() == rt
	}
	for _, p := range paths {
		info := m.infos[p]
		for _, f := range m.files[p] {
			rel, _ := filepath.Rel(repo, fset.Position(f.Package).Filename)
			for _, d := range f.Decls {
				fd, ok := d.(*ast.FuncDecl)
				if !ok || fd.Body == nil {
					continue
				}
				ast.Inspect(fd.Body, func(n ast.Node) bool {
					if as, ok := n.(*ast.AssignStmt); ok {
						for _, l := range as.Lhs {
							if isGeneralOfFunction(info, l) {
								stores = append(stores, swSite{file: rel, fn: swFuncName(fd, fset), kind: "store", target: "Function.Values.General",
									lhs: swText(fset, as), hash: swHash(swText(fset, as))})
								if obj := info.Defs[fd.Name]; obj != nil {
									storeFuncs[obj] = true
								}
							}
						}
					}
					return true
				})
			}
		}
	}
	for _, p := range paths {
		info := m.infos[p]
		for _, f := range m.files[p] {
			rel, _ := filepath.Rel(repo, fset.Position(f.Package).Filename)
			for _, d := range f.Decls {
				fd, ok := d.(*ast.FuncDecl)
				if !ok || fd.Body == nil {
					continue
				}
				ast.Inspect(fd.Body, func(n ast.Node) bool {
					c, ok := n.(*ast.CallExpr)
					if !ok {
						return true
					}
					var id *ast.Ident
					switch fx := c.Fun.(type) {
					case *ast.Ident:
						id = fx
					case *ast.SelectorExpr:
						id = fx.Sel
					}
					if id != nil && storeFuncs[info.Uses[id]] {
						arg := ""
						if len(c.Args) > 0 {
							arg = swText(fset, c.Args[len(c.Args)-1])
						}
						stores = append(stores, swSite{file: rel, fn: swFuncName(fd, fset), kind: "caller", target: id.Name,
							lhs: arg, hash: swHash(swText(fset, c))})
					}
					return true
				})
			}
		}
	}

	// the pooled argument slice of callNative: is every slot overwritten on every path?
	fill, err := swArgsPoolFill(m, rtPath)
	if err != nil {
		return "", err
	}
	poolUses, putAfterGo, err := swPoolFlow(m, rtPath)
	if err != nil {
		return "", err
	}

	var b strings.Builder
	b.WriteString("namespace ScriggoV.Gen.SharedWrites\n\n")
	b.WriteString("/-- one place in the Go sources: file, enclosing function, kind of write, what is written\n(shared type and field first met on the way), source text, hash of the whole statement -/\n")
	b.WriteString("structure Site where\n  file : String\n  fn : String\n  kind : String\n  target : String\n  lhs : String\n  hash : String\nderiving DecidableEq, Repr\n\n")
	sort.Strings(sharedNames)
	fmt.Fprintf(&b, "/-- the types whose values are shared by all runs of a compiled artefact -/\ndef sharedTypes : List String := [")
	for i, n := range sharedNames {
		if i > 0 {
			b.WriteString(", ")
		}
		b.WriteString(swLeanStr(n))
	}
	b.WriteString("]\n\n")
	swEmitSites(&b, "writeSites", "every write (assignment, ++, copy/delete/clear/append, &x, foreign mutating method call) in internal/runtime and programs.go/templates.go whose target is inside or reachable from a shared value, constructor code on fresh locals excluded", sites)
	swEmitStoredValues(&b, sites)
	swEmitSites(&b, "pkgVarWrites", "every write to a package-level variable in the same code (init functions and declarations excluded)", pkgvars)
	b.WriteString("/-- every package-level variable of internal/runtime, programs.go and templates.go whose value holds a reference to mutable memory (slice, map, pointer, channel, reflect.Value, or a struct/array of those): (file, name, type) -/\ndef pkgRefVars : List (String × String × String) := [")
	for i, v := range refVars {
		if i > 0 {
			b.WriteString(",")
		}
		fmt.Fprintf(&b, "\n  (%s, %s, %s)", swLeanStr(v.file), swLeanStr(v.name), swLeanStr(v.typ))
	}
	b.WriteString("]\n\n")
	swEmitSites(&b, "callableAllocs", "every composite literal of type callable", allocs)
	swEmitSites(&b, "generalStores", "every store into Function.Values.General in the module (kind store) and every call of a function containing one (kind caller; lhs = the stored argument)", stores)
	fmt.Fprintf(&b, "/-- callNative: the loop `for i := range nunIn` that follows `args = fn.argsPool.Get()` writes args[i] on every path -/\ndef argsPoolFilledOnEveryPath : Bool := %v\n\n", fill)
	b.WriteString("/-- one use of a pooled argument slice: function, kind (Get, Put, go = passed to a go statement, defer, call = passed to a\ncall, escape = stored or returned), the branches it is in, source text -/\nstructure PoolUse where\n  fn : String\n  kind : String\n  ctx : String\n  text : String\nderiving DecidableEq, Repr\n\n")
	b.WriteString("/-- every use, in internal/runtime, of a sync.Pool field `argsPool` and of the variable that received `argsPool.Get()`, in source order -/\ndef argsPoolUses : List PoolUse := [")
	for i, u := range poolUses {
		if i > 0 {
			b.WriteString(",")
		}
		fmt.Fprintf(&b, "\n  ⟨%s, %s, %s, %s⟩", swLeanStr(u.fn), swLeanStr(u.kind), swLeanStr(u.ctx), swLeanStr(u.text))
	}
	b.WriteString("]\n\n")
	b.WriteString("/-- (go statement that received the pooled slice, Put of that pool) pairs such that the Put can execute after the go\nstatement (later in the same or an enclosing statement list, in the same loop, or deferred) -/\ndef putReachableAfterGo : List (String × String) := [")
	for i, pr := range putAfterGo {
		if i > 0 {
			b.WriteString(", ")
		}
		fmt.Fprintf(&b, "(%s, %s)", swLeanStr(pr[0]), swLeanStr(pr[1]))
	}
	b.WriteString("]\n\n")
	gv, err := swGlobalValueFacts(m, repo, cpPath)
	if err != nil {
		return "", err
	}
	b.WriteString(gv)
	b.WriteString("end ScriggoV.Gen.SharedWrites\n")
	return b.String(), nil
}

// swArgsPoolFill finds, in (*VM).callNative, the statement `args = fn.argsPool.Get().(…)` and the
// first following `for i := range nunIn` loop, and decides whether every path through the loop
// body contains a write of args[i] (`args[i].Set…(…)` or args[i] passed to getIntoReflectValue).
func swArgsPoolFill(m *swLoader, rtPath string) (bool, error) {
	var fd *ast.FuncDecl
	for _, f := range m.files[rtPath] {
		for _, d := range f.Decls {
			if x, ok := d.(*ast.FuncDecl); ok && x.Name.Name == "callNative" && x.Recv != nil {
				fd = x
			}
		}
	}
	if fd == nil {
		return false, fmt.Errorf("shape not recognised: (*VM).callNative not found")
	}
	var loop *ast.RangeStmt
	seenGet := false
	ast.Inspect(fd.Body, func(n ast.Node) bool {
		switch x := n.(type) {
		case *ast.AssignStmt:
			if len(x.Lhs) == 1 && swText(m.fset, x.Lhs[0]) == "args" && strings.Contains(swText(m.fset, x.Rhs[0]), "argsPool.Get()") {
				seenGet = true
			}
		case *ast.RangeStmt:
			if seenGet && loop == nil && x.Key != nil && swText(m.fset, x.Key) == "i" {
				loop = x
			}
		}
		return true
	})
	if !seenGet || loop == nil {
		return false, fmt.Errorf("shape not recognised: callNative: `args = fn.argsPool.Get()` followed by `for i := range …` not found")
	}
	isWrite := func(e ast.Expr) bool {
		c, ok := e.(*ast.CallExpr)
		if !ok {
			return false
		}
		if sel, ok := c.Fun.(*ast.SelectorExpr); ok {
			if strings.HasPrefix(sel.Sel.Name, "Set") && swText(m.fset, sel.X) == "args[i]" && len(c.Args) == 1 {
				return true
			}
			if sel.Sel.Name == "getIntoReflectValue" && len(c.Args) == 3 && swText(m.fset, c.Args[1]) == "args[i]" {
				return true
			}
		}
		return false
	}
	var always func(st ast.Stmt) bool
	always = func(st ast.Stmt) bool {
		switch x := st.(type) {
		case *ast.BlockStmt:
			for _, s := range x.List {
				if always(s) {
					return true
				}
			}
			return false
		case *ast.ExprStmt:
			return isWrite(x.X)
		case *ast.AssignStmt:
			for _, r := range x.Rhs {
				if isWrite(r) {
					return true
				}
			}
			return false
		case *ast.IfStmt:
			if x.Else == nil {
				return false
			}
			return always(x.Body) && always(x.Else)
		}
		return false
	}
	return always(loop.Body), nil
}

type swPoolUse struct{ fn, kind, ctx, text string }

// swPoolFlow follows, in every function of internal/runtime that calls `<x>.argsPool.Get()`, the
// variable that receives the pooled slice: every statement that uses the pool or the variable (other
// than indexing it) with the branches it is nested in, and which Put statements can execute after
// a go statement that was handed the slice (structured reachability: the statements that follow
// in the same list or in an enclosing list, the whole body of an enclosing loop, any deferred Put).
func swPoolFlow(m *swLoader, rtPath string) (uses []swPoolUse, putAfterGo [][2]string, err error) {
	type frame struct {
		list []ast.Stmt
		idx  int
		loop bool
	}
	type rec struct {
		st     ast.Stmt
		kind   string
		frames []frame
	}
	for _, f := range m.files[rtPath] {
		for _, d := range f.Decls {
			fd, ok := d.(*ast.FuncDecl)
			if !ok || fd.Body == nil || !strings.Contains(swText(m.fset, fd.Body), "argsPool.Get()") {
				continue
			}
			name := swFuncName(fd, m.fset)
			// the variable that receives the slice
			slice := ""
			ast.Inspect(fd.Body, func(n ast.Node) bool {
				if as, ok := n.(*ast.AssignStmt); ok && len(as.Lhs) == 1 && len(as.Rhs) == 1 && strings.Contains(swText(m.fset, as.Rhs[0]), "argsPool.Get()") {
					if id, ok := as.Lhs[0].(*ast.Ident); ok {
						if slice != "" && slice != id.Name {
							err = fmt.Errorf("shape not recognised: %s: two variables receive argsPool.Get()", name)
						}
						slice = id.Name
					} else {
						err = fmt.Errorf("shape not recognised: %s: argsPool.Get() not assigned to a variable: %s", name, swText(m.fset, as))
					}
				}
				return true
			})
			if err != nil {
				return nil, nil, err
			}
			if slice == "" {
				return nil, nil, fmt.Errorf("shape not recognised: %s: result of argsPool.Get() is not assigned to a variable", name)
			}
			// does expression e mention the bare variable (not only indexed)?
			bare := func(n ast.Node) bool {
				found := false
				ast.Inspect(n, func(x ast.Node) bool {
					switch y := x.(type) {
					case *ast.IndexExpr:
						if id, ok := y.X.(*ast.Ident); ok && id.Name == slice {
							ast.Inspect(y.Index, func(z ast.Node) bool {
								if id, ok := z.(*ast.Ident); ok && id.Name == slice {
									found = true
								}
								return true
							})
							return false
						}
					case *ast.Ident:
						if y.Name == slice {
							found = true
						}
					}
					return true
				})
				return found
			}
			classify := func(st ast.Stmt) string {
				t := swText(m.fset, st)
				switch x := st.(type) {
				case *ast.GoStmt:
					if bare(x.Call) || strings.Contains(t, "argsPool") {
						return "go"
					}
				case *ast.DeferStmt:
					if bare(x.Call) || strings.Contains(t, "argsPool") {
						return "defer"
					}
				case *ast.AssignStmt:
					if strings.Contains(t, "argsPool.Get()") {
						return "Get"
					}
					if strings.Contains(t, "argsPool.Put(") {
						return "Put"
					}
					for _, l := range x.Lhs {
						if id, ok := l.(*ast.Ident); ok && id.Name == slice {
							if len(x.Rhs) == 1 && swText(m.fset, x.Rhs[0]) != "nil" {
								return "escape" // re-assigned from something else
							}
							return ""
						}
					}
					for _, r := range x.Rhs {
						if c, ok := r.(*ast.CallExpr); ok && bare(c) {
							return "call"
						}
						if bare(r) {
							return "escape"
						}
					}
				case *ast.ExprStmt:
					if strings.Contains(t, "argsPool.Put(") {
						return "Put"
					}
					if strings.Contains(t, "argsPool") {
						return "pool"
					}
					if bare(x.X) {
						return "call"
					}
				case *ast.ReturnStmt, *ast.SendStmt:
					if bare(st) {
						return "escape"
					}
				}
				return ""
			}
			var recs []rec
			var ctx []string
			var walkList func(list []ast.Stmt, frames []frame, loop bool)
			var walkStmt func(st ast.Stmt, frames []frame)
			walkList = func(list []ast.Stmt, frames []frame, loop bool) {
				for i, st := range list {
					walkStmt(st, append(append([]frame(nil), frames...), frame{list, i, loop}))
				}
			}
			walkStmt = func(st ast.Stmt, frames []frame) {
				push := func(c string, f func()) { ctx = append(ctx, c); f(); ctx = ctx[:len(ctx)-1] }
				switch x := st.(type) {
				case *ast.BlockStmt:
					walkList(x.List, frames, false)
				case *ast.IfStmt:
					if x.Init != nil {
						walkStmt(x.Init, frames)
					}
					c := swText(m.fset, x.Cond)
					if bare(x.Cond) && !strings.Contains(c, slice+" != nil") && !strings.Contains(c, slice+" == nil") {
						recs = append(recs, rec{st, "escape", frames})
					}
					push("if "+c+" then", func() { walkList(x.Body.List, frames, false) })
					if x.Else != nil {
						push("if "+c+" else", func() { walkStmt(x.Else, frames) })
					}
				case *ast.ForStmt:
					push("for", func() { walkList(x.Body.List, frames, true) })
				case *ast.RangeStmt:
					push("for", func() { walkList(x.Body.List, frames, true) })
				case *ast.SwitchStmt:
					for _, cl := range x.Body.List {
						cc := cl.(*ast.CaseClause)
						push("case", func() { walkList(cc.Body, frames, false) })
					}
				case *ast.TypeSwitchStmt:
					for _, cl := range x.Body.List {
						cc := cl.(*ast.CaseClause)
						push("case", func() { walkList(cc.Body, frames, false) })
					}
				case *ast.SelectStmt:
					for _, cl := range x.Body.List {
						cc := cl.(*ast.CommClause)
						push("case", func() { walkList(cc.Body, frames, false) })
					}
				case *ast.LabeledStmt:
					walkStmt(x.Stmt, frames)
				default:
					if k := classify(st); k != "" {
						recs = append(recs, rec{st, k, frames})
						uses = append(uses, swPoolUse{name, k, strings.Join(ctx, "; "), swText(m.fset, st)})
					}
				}
			}
			walkList(fd.Body.List, nil, false)
			// closures are not followed: a use inside a function literal would be missed
			lits := 0
			ast.Inspect(fd.Body, func(n ast.Node) bool {
				if fl, ok := n.(*ast.FuncLit); ok && (bare(fl.Body) || strings.Contains(swText(m.fset, fl.Body), "argsPool")) {
					lits++
				}
				return true
			})
			if lits > 0 {
				return nil, nil, fmt.Errorf("shape not recognised: %s: the pooled slice is used inside a function literal", name)
			}
			contains := func(list []ast.Stmt, target ast.Stmt) bool {
				found := false
				for _, st := range list {
					ast.Inspect(st, func(n ast.Node) bool {
						if n == ast.Node(target) {
							found = true
						}
						return !found
					})
				}
				return found
			}
			for _, g := range recs {
				if g.kind != "go" {
					continue
				}
				for _, p := range recs {
					reach := false
					switch p.kind {
					case "defer":
						reach = strings.Contains(swText(m.fset, p.st), "argsPool.Put(")
					case "Put":
						for _, fr := range g.frames {
							if contains(fr.list[fr.idx+1:], p.st) || (fr.loop && contains(fr.list, p.st)) {
								reach = true
							}
						}
					}
					if reach {
						putAfterGo = append(putAfterGo, [2]string{swText(m.fset, g.st), swText(m.fset, p.st)})
					}
				}
			}
		}
	}
	if len(uses) == 0 {
		return nil, nil, fmt.Errorf("shape not recognised: no function of internal/runtime calls argsPool.Get()")
	}
	return uses, putAfterGo, nil
}
