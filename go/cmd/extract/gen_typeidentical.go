package main

// Generator "TypeIdentical" (property C03): what types.identical compares, kind by kind.
//
//	from internal/compiler/types/types.go, func identical(x, y reflect.Type, underlying, ignoreTags bool) bool
//	    the prelude (checked, not translated):
//	        if x == y { return true }
//	        if !underlying && !ignoreTags { return false }
//	        k := x.Kind()
//	        if k != y.Kind() { return false }
//	        if !underlying && !(x.Name() == "" && y.Name() == "") { return false }
//	    then `switch k { case reflect.K…: … }` and `return true`. In a case:
//	        return C && …           C:  x.M() == y.M()                                   → cmp M
//	                                    identical(x.M(), y.M(), false, ignoreTags)        → idn M
//	        a, b := x.M(), x.N() / a := x.M() / b := y.M()                                 (names for counts)
//	        if D || … { return false }   D:  <x count> != <y count>, x.M() != y.M()       → cmp M
//	        for i := range <x count compared before> { … }   with, inside,
//	            f1 := x.Field(i); f2 := y.Field(i)  /  xm := x.Method(i); ym := y.Method(i)
//	            if !identical(x.M(i), y.M(i), false, ignoreTags) { return false }          → eachIdn M
//	            if f1.S != f2.S { return false }                                           → fieldCmp S / methodCmp S
//	            if !identical(f1.S, f2.S, false, ignoreTags) { return false }              → fieldIdn S / methodIdn S
//	            if !ignoreTags && f1.S != f2.S { return false }                            → fieldCmpUnlessIgnoreTags S
//	    The result is `def compared : List (RKind × List Check)` over the constructors of
//	    Model/TypeIdent.lean. Props/C03.lean proves that it covers the model's `required`.
//
// Anything outside these shapes is an error ("shape not recognised"), never a guess.

import (
	"bytes"
	"fmt"
	"go/ast"
	"go/parser"
	"go/printer"
	"go/token"
	"path/filepath"
	"strings"
)

func init() {
	generators = append(generators, generator{name: "TypeIdentical", run: genTypeIdentical})
}

var tiKinds = map[string]bool{"Array": true, "Slice": true, "Pointer": true, "Map": true, "Chan": true, "Func": true, "Struct": true, "Interface": true}
var tiSels = map[string]bool{"Len": true, "Elem": true, "Key": true, "ChanDir": true, "NumIn": true, "NumOut": true, "IsVariadic": true,
	"In": true, "Out": true, "NumField": true, "Name": true, "PkgPath": true, "Type": true, "Tag": true, "Anonymous": true, "Offset": true, "NumMethod": true}

func genTypeIdentical(repo string) (string, error) {
	fset := token.NewFileSet()
	f, err := parser.ParseFile(fset, filepath.Join(repo, "internal/compiler/types/types.go"), nil, 0)
	if err != nil {
		return "", err
	}
	src := func(n ast.Node) string {
		var b bytes.Buffer
		printer.Fprint(&b, fset, n)
		return strings.Join(strings.Fields(b.String()), " ")
	}
	bad := func(format string, a ...any) error { return fmt.Errorf("shape not recognised: "+format, a...) }
	var fn *ast.FuncDecl
	for _, d := range f.Decls {
		if fd, ok := d.(*ast.FuncDecl); ok && fd.Recv == nil && fd.Name.Name == "identical" {
			fn = fd
		}
	}
	if fn == nil || fn.Body == nil {
		return "", bad("no func identical in internal/compiler/types/types.go")
	}
	if s := src(fn.Type); s != "func(x, y reflect.Type, underlying, ignoreTags bool) bool" {
		return "", bad("signature of identical: %s", s)
	}
	prelude := []string{
		"if x == y { return true }",
		"if !underlying && !ignoreTags { return false }",
		"k := x.Kind()",
		"if k != y.Kind() { return false }",
		`if !underlying && !(x.Name() == "" && y.Name() == "") { return false }`,
	}
	body := fn.Body.List
	if len(body) != len(prelude)+2 {
		return "", bad("identical has %d statements, expected %d", len(body), len(prelude)+2)
	}
	for i, p := range prelude {
		if s := src(body[i]); s != p {
			return "", bad("statement %d of identical: %s", i+1, s)
		}
	}
	sw, ok := body[len(prelude)].(*ast.SwitchStmt)
	if !ok || sw.Init != nil || src(sw.Tag) != "k" {
		return "", bad("identical: no `switch k`")
	}
	if s := src(body[len(prelude)+1]); s != "return true" {
		return "", bad("identical ends in: %s", s)
	}

	// xy(e, bind): e is x.M() / y.M() (through the names bound to counts) → ("x"|"y", M)
	type call struct{ recv, sel string }
	callOf := func(e ast.Expr, bind map[string]call, args ...string) (call, bool) {
		if id, ok := e.(*ast.Ident); ok && len(args) == 0 {
			c, ok := bind[id.Name]
			return c, ok
		}
		ce, ok := e.(*ast.CallExpr)
		if !ok || len(ce.Args) != len(args) {
			return call{}, false
		}
		for i, a := range args {
			if src(ce.Args[i]) != a {
				return call{}, false
			}
		}
		se, ok := ce.Fun.(*ast.SelectorExpr)
		if !ok {
			return call{}, false
		}
		r, ok := se.X.(*ast.Ident)
		if !ok || r.Name != "x" && r.Name != "y" || !tiSels[se.Sel.Name] {
			return call{}, false
		}
		return call{r.Name, se.Sel.Name}, true
	}
	// recOf: identical(<a>, <b>, false, ignoreTags) → the two operands
	recOf := func(e ast.Expr) (a, b ast.Expr, ok bool) {
		ce, isCall := e.(*ast.CallExpr)
		if !isCall || src(ce.Fun) != "identical" || len(ce.Args) != 4 || src(ce.Args[2]) != "false" || src(ce.Args[3]) != "ignoreTags" {
			return nil, nil, false
		}
		return ce.Args[0], ce.Args[1], true
	}
	returnsFalse := func(b *ast.BlockStmt) bool { return len(b.List) == 1 && src(b.List[0]) == "return false" }
	split := func(e ast.Expr, op token.Token) []ast.Expr {
		var out []ast.Expr
		var rec func(e ast.Expr)
		rec = func(e ast.Expr) {
			if p, ok := e.(*ast.ParenExpr); ok {
				e = p.X
			}
			if b, ok := e.(*ast.BinaryExpr); ok && b.Op == op {
				rec(b.X)
				rec(b.Y)
				return
			}
			out = append(out, e)
		}
		rec(e)
		return out
	}

	var out strings.Builder
	out.WriteString("import ScriggoV.Model.TypeIdent\n/-! C03 — the comparisons `types.identical` (internal/compiler/types/types.go) makes for each\n`reflect.Kind`; regenerated from /repo. -/\nnamespace ScriggoV.Gen.TypeIdentical\nopen ScriggoV.TypeIdent\n\ndef compared : List (RKind × List Check) := [\n")
	first := true
	seenKind := map[string]bool{}
	for _, st := range sw.Body.List {
		cc := st.(*ast.CaseClause)
		if cc.List == nil {
			return "", bad("identical: a default case")
		}
		var kinds []string
		for _, e := range cc.List {
			se, ok := e.(*ast.SelectorExpr)
			if !ok || src(se.X) != "reflect" || !tiKinds[se.Sel.Name] || seenKind[se.Sel.Name] {
				return "", bad("identical: case %s", src(e))
			}
			seenKind[se.Sel.Name] = true
			kinds = append(kinds, se.Sel.Name)
		}
		var checks []string
		has := func(c string) bool {
			for _, x := range checks {
				if x == c {
					return true
				}
			}
			return false
		}
		bind := map[string]call{}
		// one disjunct of `if … { return false }` outside a loop
		disjunct := func(e ast.Expr) error {
			if b, ok := e.(*ast.BinaryExpr); ok && b.Op == token.NEQ {
				l, ok1 := callOf(b.X, bind)
				r, ok2 := callOf(b.Y, bind)
				if ok1 && ok2 && l.sel == r.sel && l.recv != r.recv {
					checks = append(checks, ".cmp ."+l.sel)
					return nil
				}
			}
			return bad("identical, case %s: condition %s", strings.Join(kinds, ","), src(e))
		}
		for _, s := range cc.Body {
			switch s := s.(type) {
			case *ast.ReturnStmt:
				if len(s.Results) != 1 {
					return "", bad("identical, case %s: %s", strings.Join(kinds, ","), src(s))
				}
				for _, c := range split(s.Results[0], token.LAND) {
					if b, ok := c.(*ast.BinaryExpr); ok && b.Op == token.EQL {
						l, ok1 := callOf(b.X, nil)
						r, ok2 := callOf(b.Y, nil)
						if ok1 && ok2 && l.sel == r.sel && l.recv != r.recv {
							checks = append(checks, ".cmp ."+l.sel)
							continue
						}
					}
					if a, b, ok := recOf(c); ok {
						l, ok1 := callOf(a, nil)
						r, ok2 := callOf(b, nil)
						if ok1 && ok2 && l.sel == r.sel && l.recv == "x" && r.recv == "y" {
							checks = append(checks, ".idn ."+l.sel)
							continue
						}
					}
					return "", bad("identical, case %s: conjunct %s", strings.Join(kinds, ","), src(c))
				}
			case *ast.AssignStmt:
				if s.Tok != token.DEFINE || len(s.Lhs) != len(s.Rhs) {
					return "", bad("identical, case %s: %s", strings.Join(kinds, ","), src(s))
				}
				for i := range s.Lhs {
					c, ok := callOf(s.Rhs[i], nil)
					id, isID := s.Lhs[i].(*ast.Ident)
					if !ok || !isID || !strings.HasPrefix(c.sel, "Num") {
						return "", bad("identical, case %s: %s", strings.Join(kinds, ","), src(s))
					}
					bind[id.Name] = c
				}
			case *ast.IfStmt:
				if s.Init != nil || s.Else != nil || !returnsFalse(s.Body) {
					return "", bad("identical, case %s: %s", strings.Join(kinds, ","), src(s))
				}
				for _, d := range split(s.Cond, token.LOR) {
					if err := disjunct(d); err != nil {
						return "", err
					}
				}
			case *ast.RangeStmt:
				if s.Tok != token.DEFINE || src(s.Key) != "i" || s.Value != nil {
					return "", bad("identical, case %s: loop %s", strings.Join(kinds, ","), src(s.X))
				}
				bound, ok := callOf(s.X, bind)
				if !ok || bound.recv != "x" || !has(".cmp ."+bound.sel) {
					return "", bad("identical, case %s: loop over %s, a count not compared before", strings.Join(kinds, ","), src(s.X))
				}
				// members: f1 := x.Field(i) …
				member := map[string]call{}
				prefix := ""
				for _, ls := range s.Body.List {
					switch ls := ls.(type) {
					case *ast.AssignStmt:
						ok := ls.Tok == token.DEFINE && len(ls.Lhs) == 1 && len(ls.Rhs) == 1
						var c call
						if ok {
							ce, isCall := ls.Rhs[0].(*ast.CallExpr)
							ok = isCall && len(ce.Args) == 1 && src(ce.Args[0]) == "i"
							if ok {
								fs := src(ce.Fun)
								switch {
								case fs == "x.Field" || fs == "y.Field":
									c = call{fs[:1], "field"}
									ok = bound.sel == "NumField"
								case fs == "x.Method" || fs == "y.Method":
									c = call{fs[:1], "method"}
									ok = bound.sel == "NumMethod"
								default:
									ok = false
								}
							}
						}
						if !ok {
							return "", bad("identical, case %s: %s", strings.Join(kinds, ","), src(ls))
						}
						if prefix != "" && prefix != c.sel {
							return "", bad("identical, case %s: fields and methods in one loop", strings.Join(kinds, ","))
						}
						prefix = c.sel
						member[src(ls.Lhs[0])] = c
					case *ast.IfStmt:
						if ls.Init != nil || ls.Else != nil || !returnsFalse(ls.Body) {
							return "", bad("identical, case %s: %s", strings.Join(kinds, ","), src(ls))
						}
						// memberSel: f1.S / f2.S
						memberSel := func(e ast.Expr) (call, bool) {
							se, ok := e.(*ast.SelectorExpr)
							if !ok || !tiSels[se.Sel.Name] {
								return call{}, false
							}
							m, ok := member[src(se.X)]
							return call{m.recv, se.Sel.Name}, ok
						}
						cond := ls.Cond
						unlessTags := false
						if b, ok := cond.(*ast.BinaryExpr); ok && b.Op == token.LAND && src(b.X) == "!ignoreTags" {
							unlessTags, cond = true, b.Y
						}
						done := false
						if b, ok := cond.(*ast.BinaryExpr); ok && b.Op == token.NEQ {
							l, ok1 := memberSel(b.X)
							r, ok2 := memberSel(b.Y)
							if ok1 && ok2 && l.sel == r.sel && l.recv != r.recv {
								c := "." + prefix + "Cmp ."
								if unlessTags {
									c = "." + prefix + "CmpUnlessIgnoreTags ."
									if prefix != "field" {
										return "", bad("identical, case %s: %s", strings.Join(kinds, ","), src(ls.Cond))
									}
								}
								checks = append(checks, c+l.sel)
								done = true
							}
						}
						if u, ok := cond.(*ast.UnaryExpr); ok && !done && !unlessTags && u.Op == token.NOT {
							if a, b, ok := recOf(u.X); ok {
								if l, ok1 := memberSel(a); ok1 {
									if r, ok2 := memberSel(b); ok2 && l.sel == r.sel && l.recv == "x" && r.recv == "y" {
										checks = append(checks, "."+prefix+"Idn ."+l.sel)
										done = true
									}
								}
								if l, ok1 := callOf(a, nil, "i"); ok1 && !done {
									if r, ok2 := callOf(b, nil, "i"); ok2 && l.sel == r.sel && l.recv == "x" && r.recv == "y" && "Num"+l.sel == bound.sel {
										checks = append(checks, ".eachIdn ."+l.sel)
										done = true
									}
								}
							}
						}
						if !done {
							return "", bad("identical, case %s: condition %s", strings.Join(kinds, ","), src(ls.Cond))
						}
					default:
						return "", bad("identical, case %s: %s", strings.Join(kinds, ","), src(ls))
					}
				}
			default:
				return "", bad("identical, case %s: %s", strings.Join(kinds, ","), src(s))
			}
		}
		for _, k := range kinds {
			if !first {
				out.WriteString(",\n")
			}
			first = false
			fmt.Fprintf(&out, "  (.%s, [%s])", k, strings.Join(checks, ", "))
		}
	}
	out.WriteString("]\n\nend ScriggoV.Gen.TypeIdentical\n")
	return out.String(), nil
}
