package main

// Generator "RunFuncExit" (property C12): regenerates from /repo/internal/runtime/run.go the
// way VM.runFunc leaves its loop over runRecoverable and what it returns:
//
//	for {
//		err := vm.runRecoverable()            (or `err = …` with `var err error` before the loop)
//		if err == nil { break }
//		p, ok := err.(*PanicError)
//		if !ok { [if stop != nil { close(stop) }] return err }     | … break
//		p.next = vm.panic; vm.panic = p; …
//	}
//	[if stop != nil { close(stop); if atomic.LoadInt32(&vm.env.done) == 1 { return vm.env.ctx.Err() } }]
//	if vm.panic != nil { return vm.panic }
//	return nil | return err
//
// as data: what the `!ok` branch (an error that is not a *PanicError: stopError, *fatalError,
// the context's error) does, and the returning statements after the loop in order. Anything
// else is "shape not recognised".

import (
	"fmt"
	"go/ast"
	"go/parser"
	"go/token"
	"path/filepath"
	"strings"
)

func init() {
	generators = append(generators, generator{name: "RunFuncExit", run: genRunFuncExit})
}

func genRunFuncExit(repo string) (string, error) {
	fset := token.NewFileSet()
	g := &cpGen{fset: fset, helpers: map[string]*ast.FuncDecl{}}
	file, err := parser.ParseFile(fset, filepath.Join(repo, "internal/runtime/run.go"), nil, 0)
	if err != nil {
		return "", err
	}
	var fn *ast.FuncDecl
	for _, d := range file.Decls {
		if fd, ok := d.(*ast.FuncDecl); ok && fd.Recv != nil && fd.Name.Name == "runFunc" {
			fn = fd
		}
	}
	if fn == nil {
		return "", fmt.Errorf("shape not recognised: VM.runFunc not found")
	}
	mentionsPanic := func(n ast.Node) bool {
		found := false
		ast.Inspect(n, func(x ast.Node) bool {
			if sel, ok := x.(*ast.SelectorExpr); ok && g.src(sel) == "vm.panic" {
				found = true
			}
			return !found
		})
		return found
	}
	hasReturn := func(n ast.Node) bool {
		found := false
		ast.Inspect(n, func(x ast.Node) bool {
			if _, ok := x.(*ast.ReturnStmt); ok {
				found = true
			}
			if _, ok := x.(*ast.FuncLit); ok {
				return false
			}
			return !found
		})
		return found
	}
	closeStop := func(s ast.Stmt) bool { return g.src(s) == "if stop != nil { close(stop) }" }

	var loop *ast.ForStmt
	loopAt := -1
	for i, s := range fn.Body.List {
		if fs, ok := s.(*ast.ForStmt); ok {
			if loop != nil {
				return "", g.errf(s, "second loop in runFunc")
			}
			if fs.Init != nil || fs.Cond != nil || fs.Post != nil {
				return "", g.errf(s, "loop of runFunc is not `for { … }`")
			}
			loop, loopAt = fs, i
			continue
		}
		if loop == nil && (hasReturn(s) || mentionsPanic(s)) {
			return "", g.errf(s, "statement before the loop of runFunc returns or uses vm.panic")
		}
	}
	if loop == nil {
		return "", fmt.Errorf("shape not recognised: loop of runFunc not found")
	}
	// the loop
	body := loop.Body.List
	if len(body) < 4 {
		return "", g.errf(loop, "loop body of runFunc")
	}
	if s := g.src(body[0]); s != "err := vm.runRecoverable()" && s != "err = vm.runRecoverable()" {
		return "", g.errf(body[0], "first statement of the loop (expected err := vm.runRecoverable())")
	}
	if g.src(body[1]) != "if err == nil { break }" {
		return "", g.errf(body[1], "second statement of the loop (expected if err == nil { break })")
	}
	if g.src(body[2]) != "p, ok := err.(*PanicError)" {
		return "", g.errf(body[2], "third statement of the loop (expected p, ok := err.(*PanicError))")
	}
	notOk, ok := body[3].(*ast.IfStmt)
	if !ok || notOk.Init != nil || notOk.Else != nil || g.src(notOk.Cond) != "!ok" || len(notOk.Body.List) == 0 {
		return "", g.errf(body[3], "fourth statement of the loop (expected if !ok { … })")
	}
	exit := ""
	for i, s := range notOk.Body.List {
		last := i == len(notOk.Body.List)-1
		switch {
		case !last && closeStop(s):
		case last && g.src(s) == "return err":
			exit = ".returnsErr"
		case last && g.src(s) == "break":
			exit = ".breaks"
		default:
			return "", g.errf(s, "statement of the `if !ok` branch (expected [if stop != nil { close(stop) }] return err | break)")
		}
	}
	for _, s := range body[4:] {
		if hasReturn(s) {
			return "", g.errf(s, "return statement in the loop after the `if !ok` branch")
		}
	}
	// after the loop
	var tail []string
	returned := false
	for _, s := range fn.Body.List[loopAt+1:] {
		if returned {
			return "", g.errf(s, "statement after the final return of runFunc")
		}
		src := g.src(s)
		switch {
		case closeStop(s):
		case src == "if stop != nil { close(stop) if atomic.LoadInt32(&vm.env.done) == 1 { return vm.env.ctx.Err() } }":
			tail = append(tail, ".ifDoneReturnCtxErr")
		case src == "if vm.panic != nil { return vm.panic }":
			tail = append(tail, ".ifPanicReturnPanic")
		case src == "return nil":
			tail = append(tail, ".returnNil")
			returned = true
		case src == "return err":
			tail = append(tail, ".returnErr")
			returned = true
		default:
			return "", g.errf(s, "statement after the loop of runFunc")
		}
	}
	if !returned {
		return "", g.errf(fn, "runFunc does not end with return nil | return err")
	}

	var b strings.Builder
	b.WriteString("/-! How `VM.runFunc` (internal/runtime/run.go) leaves its loop over `runRecoverable` and what it\nreturns, regenerated from /repo. -/\nnamespace ScriggoV.Gen.RunFuncExit\n\n")
	b.WriteString("/-- what the `if !ok` branch does with an error that is not a `*PanicError` (a stopError, a\n`*fatalError`, the context's error) -/\ninductive NonPanicExit where\n  | returnsErr   -- `return err`: runFunc returns that error at once\n  | breaks       -- `break`: the statements after the loop decide\n  deriving DecidableEq, Repr\n\n")
	b.WriteString("/-- a returning statement after the loop -/\ninductive Tail where\n  | ifDoneReturnCtxErr   -- `if stop != nil { close(stop); if …done == 1 { return vm.env.ctx.Err() } }`\n  | ifPanicReturnPanic   -- `if vm.panic != nil { return vm.panic }`\n  | returnNil            -- `return nil`\n  | returnErr            -- `return err` (the last error runRecoverable returned)\n  deriving DecidableEq, Repr\n\n")
	fmt.Fprintf(&b, "def nonPanicExit : NonPanicExit := %s\n\n", exit)
	fmt.Fprintf(&b, "def tail : List Tail := [%s]\n\n", strings.Join(tail, ", "))
	b.WriteString("end ScriggoV.Gen.RunFuncExit\n")
	return b.String(), nil
}
