package main

// Generator "GrowthGuards" (property C05, shared with C01/C14): regenerates from
// /repo/internal/runtime/run.go and vm.go what the code says *now* about the growth of
// the four register stacks:
//
//	every guard  `if <fp expr> OP vm.st[k] { vm.more<K>Stack() }`  of the call instructions
//	(OpCallFunc, OpCallIndirect, OpCallMacro, OpTailCall), of swapStack and of growStack,
//	with its comparison operator as data;
//	more<K>Stack: the growth factor (`top := len(vm.regs.<k>) * 2`) and `vm.st[k] = Addr(top)`;
//	whether OpDefer and nextCall call vm.growStack for the frame they activate;
//	the bounds of the four window copies of startGoroutine;
//	stackSize; how many call sites of emitTailCall the compiler has.
//
// Shapes outside these are "shape not recognised".

import (
	"fmt"
	"go/ast"
	"go/parser"
	"go/token"
	"os"
	"path/filepath"
	"regexp"
	"strconv"
	"strings"
)

func init() {
	generators = append(generators, generator{name: "GrowthGuards", run: genGrowthGuards})
}

type ggGuard struct {
	site  string
	stack int
	cmp   string
	lhs   string
	pos   string
}

var ggStackNames = []string{"Int", "Float", "String", "General"}
var ggRegNames = []string{"int", "float", "string", "general"}

var ggCmp = map[token.Token]string{token.GTR: "gt", token.GEQ: "ge", token.LSS: "lt", token.LEQ: "le", token.EQL: "eq", token.NEQ: "ne"}

// ggGuardOf recognises `if L OP vm.st[k] { vm.more<K>Stack() }`; lhsRe must match L with the same k.
func ggGuardOf(g *cpGen, is *ast.IfStmt, lhsRe string) (*ggGuard, error) {
	be, ok := is.Cond.(*ast.BinaryExpr)
	if !ok || is.Init != nil || is.Else != nil {
		return nil, nil
	}
	rhs := strings.ReplaceAll(g.src(be.Y), " ", "")
	m := regexp.MustCompile(`^vm\.st\[([0-3])\]$`).FindStringSubmatch(rhs)
	if m == nil {
		return nil, nil
	}
	k, _ := strconv.Atoi(m[1])
	cmp, ok := ggCmp[be.Op]
	if !ok {
		return nil, g.errf(is, "comparison of a growth guard")
	}
	lhs := strings.ReplaceAll(g.src(be.X), " ", "")
	if !regexp.MustCompile("^" + strings.ReplaceAll(lhsRe, "K", m[1]) + "$").MatchString(lhs) {
		return nil, g.errf(is, "left-hand side of a growth guard (expected %s)", lhsRe)
	}
	if len(is.Body.List) != 1 || g.src(is.Body.List[0]) != "vm.more"+ggStackNames[k]+"Stack()" {
		return nil, g.errf(is, "body of a growth guard (expected vm.more%sStack())", ggStackNames[k])
	}
	return &ggGuard{stack: k, cmp: cmp, lhs: lhs, pos: g.fset.Position(is.Pos()).String()}, nil
}

func ggCollect(g *cpGen, root ast.Node, site, lhsRe string) ([]ggGuard, error) {
	var out []ggGuard
	var err error
	ast.Inspect(root, func(n ast.Node) bool {
		if is, ok := n.(*ast.IfStmt); ok && err == nil {
			gd, e := ggGuardOf(g, is, lhsRe)
			if e != nil {
				err = e
			} else if gd != nil {
				gd.site = site
				out = append(out, *gd)
			}
		}
		return true
	})
	return out, err
}

func ggHasCall(g *cpGen, root ast.Node, call string) bool {
	found := false
	ast.Inspect(root, func(n ast.Node) bool {
		if es, ok := n.(*ast.ExprStmt); ok && g.src(es) == call {
			found = true
		}
		return true
	})
	return found
}

func genGrowthGuards(repo string) (string, error) {
	fset := token.NewFileSet()
	g := &cpGen{fset: fset}
	runFile, err := parser.ParseFile(fset, filepath.Join(repo, "internal/runtime/run.go"), nil, 0)
	if err != nil {
		return "", err
	}
	vmFile, err := parser.ParseFile(fset, filepath.Join(repo, "internal/runtime/vm.go"), nil, 0)
	if err != nil {
		return "", err
	}
	funcs := map[string]*ast.FuncDecl{}
	for _, f := range []*ast.File{runFile, vmFile} {
		for _, d := range f.Decls {
			if fd, ok := d.(*ast.FuncDecl); ok && fd.Recv != nil {
				funcs[fd.Name.Name] = fd
			}
		}
	}
	for _, n := range []string{"run", "swapStack", "nextCall", "startGoroutine", "moreIntStack", "moreFloatStack", "moreStringStack", "moreGeneralStack"} {
		if funcs[n] == nil {
			return "", fmt.Errorf("shape not recognised: method %s not found", n)
		}
	}
	// the instruction switch of run
	clauses := map[string]*ast.CaseClause{}
	ast.Inspect(funcs["run"].Body, func(n ast.Node) bool {
		if cc, ok := n.(*ast.CaseClause); ok {
			for _, e := range cc.List {
				if id, ok := e.(*ast.Ident); ok && strings.HasPrefix(id.Name, "Op") {
					if _, dup := clauses[id.Name]; !dup {
						clauses[id.Name] = cc
					}
				}
			}
		}
		return true
	})
	var guards []ggGuard
	callLhs := `vm\.fp\[K\]\+Addr\(fn\.NumReg\[K\]\)`
	for _, sc := range [][2]string{{"OpCallFunc", "callFunc"}, {"OpCallIndirect", "callIndirect"}, {"OpCallMacro", "callMacro"}, {"OpTailCall", "tailCall"}} {
		cc := clauses[sc[0]]
		if cc == nil {
			return "", fmt.Errorf("shape not recognised: case %s not found in run", sc[0])
		}
		gs, err := ggCollect(g, cc, sc[1], callLhs)
		if err != nil {
			return "", err
		}
		guards = append(guards, gs...)
	}
	gs, err := ggCollect(g, funcs["swapStack"].Body, "swapStack", `a\[K\]\+tot\+bs`)
	if err != nil {
		return "", err
	}
	guards = append(guards, gs...)
	hasGrow := funcs["growStack"] != nil
	if hasGrow {
		if got := g.src(funcs["growStack"].Type); got != "func(numReg StackShift)" {
			return "", fmt.Errorf("shape not recognised: growStack signature %q", got)
		}
		gs, err := ggCollect(g, funcs["growStack"].Body, "growStack", `vm\.fp\[K\]\+Addr\(numReg\[K\]\)`)
		if err != nil {
			return "", err
		}
		guards = append(guards, gs...)
	}
	seen := map[string]bool{}
	for _, gd := range guards {
		key := gd.site + strconv.Itoa(gd.stack)
		if seen[key] {
			return "", fmt.Errorf("shape not recognised: two growth guards for stack %d at %s", gd.stack, gd.site)
		}
		seen[key] = true
	}
	// OpDefer: swapStack then (maybe) growStack of the running function
	deferCC := clauses["OpDefer"]
	if deferCC == nil || !strings.Contains(g.src(deferCC), "vm.swapStack(&vm.fp, &fp, StackShift{int8(arg.Op), arg.A, arg.B, arg.C})") {
		return "", fmt.Errorf("shape not recognised: OpDefer")
	}
	deferGrows := hasGrow && ggHasCall(g, deferCC, "vm.growStack(vm.fn.NumReg)")
	// nextCall: growStack of the activated function before `return true`
	nextGrows := false
	if hasGrow {
		src := g.src(funcs["nextCall"].Body)
		nextGrows = strings.Contains(src, "vm.fn = call.cl.fn vm.vars = call.cl.vars vm.renderer = call.renderer vm.growStack(vm.fn.NumReg) return true")
	}
	// more*Stack
	factors := make([]int, 4)
	for k := 0; k < 4; k++ {
		fd := funcs["more"+ggStackNames[k]+"Stack"]
		src := g.src(fd.Body)
		re := regexp.MustCompile(`^\{ top := len\(vm\.regs\.` + ggRegNames[k] + `\) \* (\d+) stack := make\(\[\][\w.]+, top\) copy\(stack, vm\.regs\.` + ggRegNames[k] + `\) vm\.regs\.` + ggRegNames[k] + ` = stack vm\.st\[` + strconv.Itoa(k) + `\] = Addr\(top\) \}$`)
		m := re.FindStringSubmatch(src)
		if m == nil {
			return "", fmt.Errorf("shape not recognised: more%sStack: %q", ggStackNames[k], src)
		}
		factors[k], _ = strconv.Atoi(m[1])
	}
	// startGoroutine copies
	goUpper := make([]string, 4)
	offField := []string{"Op", "A", "B", "C"}
	sgSrc := g.src(funcs["startGoroutine"].Body)
	for k := 0; k < 4; k++ {
		ks := strconv.Itoa(k)
		lo := `vm\.fp\[` + ks + `\]\+Addr\(off\.` + offField[k] + `\)`
		pre := `copy\(nvm\.regs\.` + ggRegNames[k] + `, vm\.regs\.` + ggRegNames[k] + `\[` + lo + `:`
		if m := regexp.MustCompile(pre + `vm\.fp\[` + ks + `\]\+(\d+)\]\)`).FindStringSubmatch(sgSrc); m != nil {
			goUpper[k] = ".fpPlus " + m[1]
		} else if m := regexp.MustCompile(pre + `min\(vm\.fp\[` + ks + `\]\+(\d+), vm\.st\[` + ks + `\]\)\]\)`).FindStringSubmatch(sgSrc); m != nil {
			goUpper[k] = ".minFpPlusLen " + m[1]
		} else {
			return "", fmt.Errorf("shape not recognised: window copy of stack %d in startGoroutine", k)
		}
	}
	// stackSize, create
	stackSize := 0
	for _, d := range vmFile.Decls {
		if gd, ok := d.(*ast.GenDecl); ok && gd.Tok == token.CONST {
			for _, s := range gd.Specs {
				vs := s.(*ast.ValueSpec)
				if len(vs.Names) == 1 && vs.Names[0].Name == "stackSize" && len(vs.Values) == 1 {
					stackSize, _ = strconv.Atoi(g.src(vs.Values[0]))
				}
			}
		}
	}
	if stackSize == 0 || !strings.Contains(g.src(funcs["Reset"]), "vm.st[0] = Addr(len(vm.regs.int))") {
		return "", fmt.Errorf("shape not recognised: stackSize / Reset")
	}
	// registers are int8 operands: the largest register number
	// (Instruction{Op Operation; A, B, C int8}; NumReg [4]int8)
	if !strings.Contains(g.srcFile(vmFile), "NumReg [4]int8") {
		return "", fmt.Errorf("shape not recognised: Function.NumReg is not [4]int8")
	}
	// emitTailCall call sites in the compiler
	tailEmitters := 0
	files, _ := filepath.Glob(filepath.Join(repo, "internal/compiler/*.go"))
	for _, f := range files {
		if strings.HasSuffix(f, "_test.go") {
			continue
		}
		data, err := os.ReadFile(f)
		if err != nil {
			return "", err
		}
		cf, err := parser.ParseFile(fset, f, data, 0)
		if err != nil {
			return "", err
		}
		ast.Inspect(cf, func(n ast.Node) bool {
			if call, ok := n.(*ast.CallExpr); ok {
				if sel, ok := call.Fun.(*ast.SelectorExpr); ok && sel.Sel.Name == "emitTailCall" {
					tailEmitters++
				}
			}
			return true
		})
	}

	var b strings.Builder
	b.WriteString(`/-! Stack-growth guards of the register stacks as the code has them now (run.go, vm.go),
regenerated from /repo: the comparison operator of each guard is data. -/
namespace ScriggoV.Gen.GrowthGuards

inductive Cmp where
  | gt | ge | lt | le | eq | ne
  deriving DecidableEq, Repr

inductive Site where
  | callFunc | callIndirect | callMacro | tailCall | swapStack | growStack
  deriving DecidableEq, Repr

/-- upper bound of a window copy of startGoroutine -/
inductive GoUpper where
  | fpPlus (c : Nat)          -- regs[fp+off : fp+c]
  | minFpPlusLen (c : Nat)    -- regs[fp+off : min(fp+c, len)]
  deriving DecidableEq, Repr

structure Guard where
  site : Site
  stack : Nat
  cmp : Cmp
  lhs : String
  pos : String
  deriving Repr

`)
	b.WriteString("def guards : List Guard := [\n")
	for i, gd := range guards {
		sep := ","
		if i == len(guards)-1 {
			sep = ""
		}
		fmt.Fprintf(&b, "  { site := .%s, stack := %d, cmp := .%s, lhs := %q, pos := %q }%s\n", gd.site, gd.stack, gd.cmp, gd.lhs, strings.TrimPrefix(gd.pos, repo+"/"), sep)
	}
	b.WriteString("]\n\n/-- the comparison of the guard of `site` on stack `k` (`none`: the site has no guard for that stack) -/\ndef cmpAt : Site → Nat → Option Cmp\n")
	for _, gd := range guards {
		fmt.Fprintf(&b, "  | .%s, %d => some .%s\n", gd.site, gd.stack, gd.cmp)
	}
	b.WriteString("  | _, _ => none\n\n")
	b.WriteString("/-- more<K>Stack: the new length is the old one times this factor, and vm.st[k] is set to it -/\ndef growFactor : Nat → Nat\n")
	for k := 0; k < 4; k++ {
		fmt.Fprintf(&b, "  | %d => %d\n", k, factors[k])
	}
	b.WriteString("  | _ => 1\n\n")
	fmt.Fprintf(&b, "/-- `const stackSize`: the initial length of each stack -/\ndef stackSize : Nat := %d\n\n", stackSize)
	fmt.Fprintf(&b, "/-- registers are `int8` operands and `NumReg` is `[4]int8` -/\ndef maxReg : Nat := 127\n\n")
	fmt.Fprintf(&b, "/-- OpDefer calls `vm.growStack(vm.fn.NumReg)` after `swapStack` has moved the frame up -/\ndef deferGrows : Bool := %v\n\n", deferGrows)
	fmt.Fprintf(&b, "/-- nextCall calls `vm.growStack(vm.fn.NumReg)` for the function it activates -/\ndef nextCallGrows : Bool := %v\n\n", nextGrows)
	b.WriteString("/-- startGoroutine: upper bound of the window copy of stack `k` (the lower bound is `fp+off`) -/\ndef goUpper : Nat → GoUpper\n")
	for k := 0; k < 4; k++ {
		fmt.Fprintf(&b, "  | %d => %s\n", k, goUpper[k])
	}
	b.WriteString("  | _ => .fpPlus 0\n\n")
	fmt.Fprintf(&b, "/-- call sites of `emitTailCall` in internal/compiler (OpTailCall is emitted only there) -/\ndef tailCallEmitters : Nat := %d\n\n", tailEmitters)
	b.WriteString("end ScriggoV.Gen.GrowthGuards\n")
	return b.String(), nil
}

func (g *cpGen) srcFile(f *ast.File) string {
	var parts []string
	for _, d := range f.Decls {
		parts = append(parts, g.src(d))
	}
	return strings.Join(parts, " ")
}
