package main

// Generator "ReflectGuards" (property C25, argument-kind part): from /repo/builtin/builtin.go
//   - every top-level function with a parameter of type `any` whose body uses package reflect
//     (today: UnmarshalJSON, UnmarshalYAML, Reverse, Sort) as a program over
//     Model/ReflectGuards.lean: the checks (`if v == nil`, `if rv.Kind() != reflect.Pointer`,
//     `if rv.IsZero()` …), the reflect operations in evaluation order (reflect.ValueOf, Type, Elem,
//     New, Set, Interface, Len, Index, reflect.Swapper, sort.Slice …), the returns, the documented
//     panics `panic("<fn>: …")` and the deferred recover; conditions that are not about the
//     argument (`err != nil`, loops, switch clauses) become `Cond.opaque`;
//   - the names of all functions with an `any` / `...any` parameter and of all functions whose
//     last result is `error` (the harness must have a stream for each of them).
// Anything that touches a tracked reflect object in a way not listed here is "shape not
// recognised" — never guessed.

import (
	"fmt"
	"go/ast"
	"go/parser"
	"go/token"
	"path/filepath"
	"sort"
	"strconv"
	"strings"
	"unicode"
)

func init() {
	generators = append(generators, generator{name: "ReflectGuards", run: genReflectGuards})
}

type rgSort int

const (
	rgIface rgSort = iota + 1
	rgValue
	rgType
)

var rgKinds = map[string]string{
	"Invalid": "invalid", "Bool": "bool", "Int": "int", "Int8": "int8", "Int16": "int16", "Int32": "int32", "Int64": "int64",
	"Uint": "uint", "Uint8": "uint8", "Uint16": "uint16", "Uint32": "uint32", "Uint64": "uint64", "Uintptr": "uintptr",
	"Float32": "float32", "Float64": "float64", "Complex64": "complex64", "Complex128": "complex128",
	"Array": "array", "Chan": "chan", "Func": "func", "Interface": "interface", "Map": "map", "Pointer": "pointer", "Ptr": "pointer",
	"Slice": "slice", "String": "string", "Struct": "struct", "UnsafePointer": "unsafePointer",
}

// methods of reflect.Value / reflect.Type that are modelled: Lean constructor and sort of the result (0: opaque)
var rgValueMethods = map[string]struct {
	op  string
	res rgSort
}{
	"Type": {"vType", rgType}, "Kind": {"vKind", 0}, "String": {"vString", 0}, "Elem": {"vElem", rgValue},
	"Interface": {"vInterface", 0}, "IsZero": {"vIsZero", 0}, "IsNil": {"vIsNil", 0}, "Len": {"vLen", 0}, "Index": {"vIndex", rgValue},
}
var rgTypeMethods = map[string]struct {
	op  string
	res rgSort
}{
	"Kind": {"tKind", 0}, "String": {"tString", 0}, "Elem": {"tElem", rgType},
}

type rgScope map[string]int

func (s rgScope) clone() rgScope {
	c := rgScope{}
	for k, v := range s {
		c[k] = v
	}
	return c
}

type rgFn struct {
	g         *btGen
	name      string
	docPrefix string
	next      int
	sorts     map[int]rgSort
	errResult bool
}

func (f *rgFn) fresh(s rgSort) int {
	r := f.next
	f.next++
	f.sorts[r] = s
	return r
}

func (f *rgFn) lit(n ast.Node) string {
	s, err := leanString(f.g.src(n))
	if err != nil {
		return `"<non-ASCII source>"`
	}
	return s
}

// mentions reports whether n mentions an identifier bound to a register.
func rgMentions(n ast.Node, sc rgScope) bool {
	found := false
	ast.Inspect(n, func(n ast.Node) bool {
		if id, ok := n.(*ast.Ident); ok {
			if _, ok := sc[id.Name]; ok {
				found = true
			}
		}
		return !found
	})
	return found
}

func rgUnparen(e ast.Expr) ast.Expr {
	for {
		p, ok := e.(*ast.ParenExpr)
		if !ok {
			return e
		}
		e = p.X
	}
}

// pkgIdent: e is an identifier that is not bound to a register (a package name or another variable).
func rgFreeIdent(e ast.Expr, sc rgScope) (string, bool) {
	id, ok := e.(*ast.Ident)
	if !ok {
		return "", false
	}
	if _, bound := sc[id.Name]; bound {
		return "", false
	}
	return id.Name, true
}

// operands evaluates the expressions in order; none may be a tracked object.
func (f *rgFn) operands(es []ast.Expr, sc rgScope, out *[]string) error {
	for _, e := range es {
		if e == nil {
			continue
		}
		r, err := f.expr(e, sc, out)
		if err != nil {
			return err
		}
		if r >= 0 {
			return f.g.errf(e, "%s: a tracked reflect object is used in a position that is not modelled", f.name)
		}
	}
	return nil
}

func (f *rgFn) emitOp(out *[]string, res rgSort, op string, src ast.Node) int {
	dst := f.fresh(res)
	*out = append(*out, fmt.Sprintf(".op %d (%s) %s", dst, op, f.lit(src)))
	if res == 0 {
		return -1
	}
	return dst
}

// expr emits the reflect operations of e in evaluation order and returns the register that holds
// its value when that is a tracked object, -1 otherwise.
func (f *rgFn) expr(e ast.Expr, sc rgScope, out *[]string) (int, error) {
	switch e := e.(type) {
	case nil:
		return -1, nil
	case *ast.Ident:
		if r, ok := sc[e.Name]; ok {
			return r, nil
		}
		return -1, nil
	case *ast.BasicLit:
		return -1, nil
	case *ast.ParenExpr:
		return f.expr(e.X, sc, out)
	case *ast.FuncLit:
		if rgMentions(e.Body, sc) {
			return -1, f.g.errf(e, "%s: a function literal uses a tracked reflect object", f.name)
		}
		return -1, nil
	case *ast.CompositeLit:
		return -1, f.operands(e.Elts, sc, out)
	case *ast.KeyValueExpr:
		return -1, f.operands([]ast.Expr{e.Key, e.Value}, sc, out)
	case *ast.UnaryExpr:
		return -1, f.operands([]ast.Expr{e.X}, sc, out)
	case *ast.StarExpr:
		return -1, f.operands([]ast.Expr{e.X}, sc, out)
	case *ast.BinaryExpr:
		return -1, f.operands([]ast.Expr{e.X, e.Y}, sc, out)
	case *ast.IndexExpr:
		return -1, f.operands([]ast.Expr{e.X, e.Index}, sc, out)
	case *ast.SliceExpr:
		return -1, f.operands([]ast.Expr{e.X, e.Low, e.High, e.Max}, sc, out)
	case *ast.TypeAssertExpr:
		// x.(T) on the `any` parameter itself never panics in the comma-ok / switch forms; the
		// single-value form may, and is not used on tracked objects
		if r, err := f.expr(e.X, sc, out); err != nil {
			return -1, err
		} else if r >= 0 {
			return -1, f.g.errf(e, "%s: type assertion on a tracked object", f.name)
		}
		return -1, nil
	case *ast.ArrayType, *ast.MapType, *ast.FuncType, *ast.InterfaceType, *ast.StructType, *ast.ChanType:
		return -1, nil
	case *ast.SelectorExpr:
		if _, ok := rgFreeIdent(e.X, sc); ok {
			return -1, nil // pkg.Name or a field of an untracked variable
		}
		if r, err := f.expr(e.X, sc, out); err != nil {
			return -1, err
		} else if r >= 0 {
			return -1, f.g.errf(e, "%s: method value or field of a tracked object", f.name)
		}
		return -1, nil
	case *ast.CallExpr:
		return f.call(e, sc, out)
	}
	return -1, f.g.errf(e, "%s: expression form not modelled", f.name)
}

func (f *rgFn) call(e *ast.CallExpr, sc rgScope, out *[]string) (int, error) {
	fun := rgUnparen(e.Fun)
	// reflect.TypeFor[T]()
	if ix, ok := fun.(*ast.IndexExpr); ok {
		if sel, ok := ix.X.(*ast.SelectorExpr); ok && btIsIdent(sel.X, "reflect") && sel.Sel.Name == "TypeFor" && len(e.Args) == 0 {
			if _, shadow := sc["reflect"]; shadow {
				return -1, f.g.errf(e, "%s: reflect is shadowed", f.name)
			}
			kind := ""
			switch t := ix.Index.(type) {
			case *ast.FuncType:
				kind = "func"
			case *ast.ArrayType:
				if t.Len == nil {
					kind = "slice"
				} else {
					kind = "array"
				}
			case *ast.MapType:
				kind = "map"
			case *ast.ChanType:
				kind = "chan"
			case *ast.StarExpr:
				kind = "pointer"
			case *ast.StructType:
				kind = "struct"
			default:
				return -1, f.g.errf(e, "%s: reflect.TypeFor of a type whose kind is not syntactically evident", f.name)
			}
			return f.emitOp(out, rgType, ".typeFor ."+kind, e), nil
		}
		return -1, f.g.errf(e, "%s: generic call not modelled", f.name)
	}
	switch fn := fun.(type) {
	case *ast.SelectorExpr:
		if pkg, ok := rgFreeIdent(fn.X, sc); ok {
			switch pkg {
			case "reflect":
				if len(e.Args) != 1 {
					return -1, f.g.errf(e, "%s: reflect.%s with %d arguments", f.name, fn.Sel.Name, len(e.Args))
				}
				a, err := f.expr(e.Args[0], sc, out)
				if err != nil {
					return -1, err
				}
				want, op, res := rgIface, "", rgSort(0)
				switch fn.Sel.Name {
				case "ValueOf":
					op, res = "valueOf", rgValue
				case "TypeOf":
					op, res = "typeOf", rgType
				case "New":
					want, op, res = rgType, "new", rgValue
				case "Swapper":
					op = "swapper"
				default:
					return -1, f.g.errf(e, "%s: reflect.%s is not modelled", f.name, fn.Sel.Name)
				}
				if a < 0 || f.sorts[a] != want {
					return -1, f.g.errf(e, "%s: argument of reflect.%s is not a tracked object of the expected sort", f.name, fn.Sel.Name)
				}
				return f.emitOp(out, res, fmt.Sprintf(".%s %d", op, a), e), nil
			case "sort":
				if fn.Sel.Name == "Slice" || fn.Sel.Name == "SliceStable" {
					if len(e.Args) != 2 {
						return -1, f.g.errf(e, "%s: sort.%s with %d arguments", f.name, fn.Sel.Name, len(e.Args))
					}
					a, err := f.expr(e.Args[0], sc, out)
					if err != nil {
						return -1, err
					}
					if err := f.operands(e.Args[1:], sc, out); err != nil {
						return -1, err
					}
					if a < 0 {
						return -1, nil // a slice of static type: cannot panic on the kind
					}
					if f.sorts[a] != rgIface {
						return -1, f.g.errf(e, "%s: sort.%s of a reflect object", f.name, fn.Sel.Name)
					}
					return f.emitOp(out, 0, fmt.Sprintf(".sortSlice %d", a), e), nil
				}
			case "fmt", "errors":
				// values and types may be printed: fmt never panics on them
				for _, a := range e.Args {
					if _, err := f.expr(a, sc, out); err != nil {
						return -1, err
					}
				}
				return -1, nil
			}
			return -1, f.operands(e.Args, sc, out)
		}
		// method call on an expression
		recv, err := f.expr(fn.X, sc, out)
		if err != nil {
			return -1, err
		}
		if recv < 0 {
			return -1, f.operands(e.Args, sc, out)
		}
		switch f.sorts[recv] {
		case rgValue:
			if fn.Sel.Name == "Set" {
				if len(e.Args) != 1 {
					return -1, f.g.errf(e, "%s: Set with %d arguments", f.name, len(e.Args))
				}
				y, err := f.expr(e.Args[0], sc, out)
				if err != nil {
					return -1, err
				}
				if y < 0 || f.sorts[y] != rgValue {
					return -1, f.g.errf(e, "%s: argument of Set is not a tracked reflect.Value", f.name)
				}
				return f.emitOp(out, 0, fmt.Sprintf(".vSet %d %d", recv, y), e), nil
			}
			m, ok := rgValueMethods[fn.Sel.Name]
			if !ok {
				return -1, f.g.errf(e, "%s: reflect.Value.%s is not modelled", f.name, fn.Sel.Name)
			}
			if err := f.operands(e.Args, sc, out); err != nil {
				return -1, err
			}
			if want := map[string]int{"Index": 1}[fn.Sel.Name]; len(e.Args) != want {
				return -1, f.g.errf(e, "%s: reflect.Value.%s with %d arguments", f.name, fn.Sel.Name, len(e.Args))
			}
			return f.emitOp(out, m.res, fmt.Sprintf(".%s %d", m.op, recv), e), nil
		case rgType:
			m, ok := rgTypeMethods[fn.Sel.Name]
			if !ok || len(e.Args) != 0 {
				return -1, f.g.errf(e, "%s: reflect.Type.%s is not modelled", f.name, fn.Sel.Name)
			}
			return f.emitOp(out, m.res, fmt.Sprintf(".%s %d", m.op, recv), e), nil
		}
		return -1, f.g.errf(e, "%s: method call on the `any` parameter", f.name)
	case *ast.Ident:
		if _, bound := sc[fn.Name]; bound {
			return -1, f.g.errf(e, "%s: call of a tracked object", f.name)
		}
		if fn.Name == "panic" {
			for _, a := range e.Args {
				if _, err := f.expr(a, sc, out); err != nil {
					return -1, err
				}
			}
			return -1, nil
		}
		return -1, f.operands(e.Args, sc, out)
	case *ast.FuncLit:
		if rgMentions(fn.Body, sc) {
			return -1, f.g.errf(e, "%s: a function literal uses a tracked reflect object", f.name)
		}
		return -1, f.operands(e.Args, sc, out)
	case *ast.ArrayType, *ast.MapType, *ast.InterfaceType, *ast.StarExpr, *ast.ChanType, *ast.FuncType:
		return -1, f.operands(e.Args, sc, out) // conversion
	}
	return -1, f.g.errf(e, "%s: call form not modelled", f.name)
}

// kindConst recognises reflect.<Kind>.
func (f *rgFn) kindConst(e ast.Expr, sc rgScope) (string, bool) {
	sel, ok := rgUnparen(e).(*ast.SelectorExpr)
	if !ok {
		return "", false
	}
	if pkg, ok := rgFreeIdent(sel.X, sc); !ok || pkg != "reflect" {
		return "", false
	}
	k, ok := rgKinds[sel.Sel.Name]
	return k, ok
}

// method0 recognises `A.<name>()` and returns A.
func rgMethod0(e ast.Expr, name string) (ast.Expr, bool) {
	c, ok := rgUnparen(e).(*ast.CallExpr)
	if !ok || len(c.Args) != 0 {
		return nil, false
	}
	sel, ok := rgUnparen(c.Fun).(*ast.SelectorExpr)
	if !ok || sel.Sel.Name != name {
		return nil, false
	}
	return sel.X, true
}

// cond translates the condition of an `if`; the operations needed to evaluate its operands are
// emitted to out.
func (f *rgFn) cond(e ast.Expr, sc rgScope, out *[]string) (string, error) {
	e = rgUnparen(e)
	b := func(neg bool) string { return strconv.FormatBool(neg) }
	switch x := e.(type) {
	case *ast.UnaryExpr:
		if x.Op == token.NOT {
			for _, m := range []struct{ method, ctor string }{{"IsZero", "isZero"}, {"IsNil", "isNilV"}} {
				if a, ok := rgMethod0(x.X, m.method); ok {
					if r, err := f.expr(a, sc, out); err != nil {
						return "", err
					} else if r >= 0 && f.sorts[r] == rgValue {
						return fmt.Sprintf(".%s %d true", m.ctor, r), nil
					} else if r >= 0 {
						return "", f.g.errf(e, "%s: %s on a tracked object that is not a reflect.Value", f.name, m.method)
					}
					return ".opaque", nil
				}
			}
		}
	case *ast.BinaryExpr:
		if x.Op == token.EQL || x.Op == token.NEQ {
			neg := x.Op == token.NEQ
			for _, p := range [][2]ast.Expr{{x.X, x.Y}, {x.Y, x.X}} {
				if id, ok := p[0].(*ast.Ident); ok && btIsIdent(p[1], "nil") {
					if r, bound := sc[id.Name]; bound {
						if _, nilShadow := sc["nil"]; f.sorts[r] != rgIface || nilShadow {
							return "", f.g.errf(e, "%s: comparison of a reflect object with nil", f.name)
						}
						return fmt.Sprintf(".argNil %d %s", r, b(neg)), nil
					}
				}
				if a, ok := rgMethod0(p[0], "Kind"); ok {
					if k, ok := f.kindConst(p[1], sc); ok {
						r, err := f.expr(a, sc, out)
						if err != nil {
							return "", err
						}
						if r < 0 {
							return ".opaque", nil
						}
						if f.sorts[r] == rgIface {
							return "", f.g.errf(e, "%s: Kind of the `any` parameter", f.name)
						}
						return fmt.Sprintf(".kindIs %d .%s %s", r, k, b(neg)), nil
					}
				}
			}
		}
	case *ast.CallExpr:
		for _, m := range []struct{ method, ctor string }{{"IsZero", "isZero"}, {"IsNil", "isNilV"}} {
			if a, ok := rgMethod0(x, m.method); ok {
				if r, err := f.expr(a, sc, out); err != nil {
					return "", err
				} else if r >= 0 && f.sorts[r] == rgValue {
					return fmt.Sprintf(".%s %d false", m.ctor, r), nil
				} else if r >= 0 {
					return "", f.g.errf(e, "%s: %s on a tracked object that is not a reflect.Value", f.name, m.method)
				}
				return ".opaque", nil
			}
		}
	}
	// not about a tracked object in a recognised way: its operations still run (both operands of
	// && and || are taken as evaluated: more paths, never fewer)
	if err := f.operands([]ast.Expr{e}, sc, out); err != nil {
		return "", err
	}
	return ".opaque", nil
}

func rgList(stmts []string, indent string) string {
	if len(stmts) == 0 {
		return "[]"
	}
	return "[\n" + indent + "  " + strings.Join(stmts, ",\n"+indent+"  ") + "]"
}

// docPanic: the argument of panic starts with the string literal "<fn>: ".
func (f *rgFn) isDocPanic(arg ast.Expr) bool {
	for {
		arg = rgUnparen(arg)
		b, ok := arg.(*ast.BinaryExpr)
		if !ok || b.Op != token.ADD {
			break
		}
		arg = b.X
	}
	lit, ok := arg.(*ast.BasicLit)
	if !ok || lit.Kind != token.STRING {
		return false
	}
	s, err := strconv.Unquote(lit.Value)
	return err == nil && strings.HasPrefix(s, f.docPrefix)
}

func (f *rgFn) block(list []ast.Stmt, sc rgScope, indent string) ([]string, error) {
	sc = sc.clone()
	var out []string
	for _, s := range list {
		if err := f.stmt(s, sc, &out, indent); err != nil {
			return nil, err
		}
	}
	return out, nil
}

func (f *rgFn) unbind(e ast.Expr, sc rgScope) {
	if id, ok := e.(*ast.Ident); ok {
		delete(sc, id.Name)
	}
}

func (f *rgFn) maybe(what string, n ast.Node, body []ast.Stmt, sc rgScope, out *[]string, indent string) error {
	b, err := f.block(body, sc, indent+"  ")
	if err != nil {
		return err
	}
	if len(b) == 0 {
		return nil // nothing modelled inside: running it or not makes no difference
	}
	lit, _ := leanString(what)
	*out = append(*out, fmt.Sprintf(".ite .opaque %s %s []", lit, rgList(b, indent+"  ")))
	return nil
}

func (f *rgFn) stmt(s ast.Stmt, sc rgScope, out *[]string, indent string) error {
	switch s := s.(type) {
	case nil, *ast.EmptyStmt, *ast.BranchStmt:
		if b, ok := s.(*ast.BranchStmt); ok && (b.Tok == token.GOTO || b.Label != nil) {
			return f.g.errf(s, "%s: goto / labelled branch", f.name)
		}
		return nil
	case *ast.BlockStmt:
		b, err := f.block(s.List, sc, indent)
		*out = append(*out, b...)
		return err
	case *ast.ExprStmt:
		if c, ok := s.X.(*ast.CallExpr); ok && btIsIdent(c.Fun, "panic") && len(c.Args) == 1 {
			if _, bound := sc["panic"]; !bound {
				if _, err := f.expr(c, sc, out); err != nil {
					return err
				}
				if !f.isDocPanic(c.Args[0]) {
					return f.g.errf(s, "%s: panic whose message does not start with the literal %q", f.name, f.docPrefix)
				}
				*out = append(*out, ".ret .docPanic")
				return nil
			}
		}
		_, err := f.expr(s.X, sc, out)
		return err
	case *ast.IncDecStmt:
		return f.operands([]ast.Expr{s.X}, sc, out)
	case *ast.DeclStmt:
		gd, ok := s.Decl.(*ast.GenDecl)
		if !ok || gd.Tok != token.VAR {
			return nil
		}
		for _, sp := range gd.Specs {
			vs := sp.(*ast.ValueSpec)
			if err := f.operands(vs.Values, sc, out); err != nil {
				return err
			}
			for _, n := range vs.Names {
				delete(sc, n.Name)
			}
		}
		return nil
	case *ast.AssignStmt:
		if s.Tok == token.DEFINE && len(s.Lhs) == len(s.Rhs) {
			regs := make([]int, len(s.Rhs))
			for i, r := range s.Rhs {
				var err error
				if regs[i], err = f.expr(r, sc, out); err != nil {
					return err
				}
			}
			for i, l := range s.Lhs {
				id, ok := l.(*ast.Ident)
				if !ok {
					return f.g.errf(s, "%s: := with a non-identifier", f.name)
				}
				if regs[i] >= 0 && id.Name != "_" {
					sc[id.Name] = regs[i]
				} else {
					delete(sc, id.Name)
				}
			}
			return nil
		}
		for _, r := range s.Rhs {
			// the value may be a tracked object stored into an untracked place (sv[i] = v.Index(i)):
			// the operation is emitted, the stored object is not followed
			if _, err := f.expr(r, sc, out); err != nil {
				return err
			}
		}
		for _, l := range s.Lhs {
			if id, ok := l.(*ast.Ident); ok {
				if _, bound := sc[id.Name]; bound {
					if s.Tok == token.DEFINE {
						delete(sc, id.Name)
						continue
					}
					return f.g.errf(s, "%s: assignment to a variable that holds a tracked reflect object", f.name)
				}
				continue
			}
			if err := f.operands([]ast.Expr{l}, sc, out); err != nil {
				return err
			}
		}
		return nil
	case *ast.ReturnStmt:
		for _, r := range s.Results {
			if _, err := f.expr(r, sc, out); err != nil {
				return err
			}
		}
		kind := "plain"
		if f.errResult && len(s.Results) > 0 {
			switch last := rgUnparen(s.Results[len(s.Results)-1]).(type) {
			case *ast.Ident:
				if last.Name == "nil" {
					kind = "ok"
				}
			case *ast.CallExpr:
				src := f.g.src(last.Fun)
				if src == "errors.New" || src == "fmt.Errorf" || src == "replacePrefix" {
					kind = "err"
				}
			}
		}
		*out = append(*out, ".ret ."+kind)
		return nil
	case *ast.DeferStmt:
		if fl, ok := s.Call.Fun.(*ast.FuncLit); ok {
			if rgMentions(fl.Body, sc) {
				return f.g.errf(s, "%s: a deferred function uses a tracked reflect object", f.name)
			}
			if err := f.operands(s.Call.Args, sc, out); err != nil {
				return err
			}
			recovers := len(findNodes(fl.Body, func(c *ast.CallExpr) bool { return btIsIdent(c.Fun, "recover") })) > 0
			if recovers {
				*out = append(*out, ".deferRecover")
			}
			return nil
		}
		return f.g.errf(s, "%s: defer of something that is not a function literal", f.name)
	case *ast.IfStmt:
		sc = sc.clone()
		if s.Init != nil {
			if err := f.stmt(s.Init, sc, out, indent); err != nil {
				return err
			}
		}
		c, err := f.cond(s.Cond, sc, out)
		if err != nil {
			return err
		}
		thn, err := f.block(s.Body.List, sc, indent+"  ")
		if err != nil {
			return err
		}
		var els []string
		switch e := s.Else.(type) {
		case nil:
		case *ast.BlockStmt:
			if els, err = f.block(e.List, sc, indent+"  "); err != nil {
				return err
			}
		default:
			if err = f.stmt(e, sc.clone(), &els, indent+"  "); err != nil {
				return err
			}
		}
		*out = append(*out, fmt.Sprintf(".ite (%s) %s %s %s", c, f.lit(s.Cond), rgList(thn, indent+"  "), rgList(els, indent+"  ")))
		return nil
	case *ast.ForStmt:
		sc = sc.clone()
		if s.Init != nil {
			if err := f.stmt(s.Init, sc, out, indent); err != nil {
				return err
			}
		}
		if s.Cond != nil {
			if err := f.operands([]ast.Expr{s.Cond}, sc, out); err != nil {
				return err
			}
		}
		body := append([]ast.Stmt(nil), s.Body.List...)
		if s.Post != nil {
			body = append(body, s.Post)
		}
		return f.maybe("for-body", s, body, sc, out, indent)
	case *ast.RangeStmt:
		if err := f.operands([]ast.Expr{s.X}, sc, out); err != nil {
			return err
		}
		sc = sc.clone()
		f.unbind(s.Key, sc)
		f.unbind(s.Value, sc)
		return f.maybe("range-body", s, s.Body.List, sc, out, indent)
	case *ast.SwitchStmt:
		sc = sc.clone()
		if s.Init != nil {
			if err := f.stmt(s.Init, sc, out, indent); err != nil {
				return err
			}
		}
		if err := f.operands([]ast.Expr{s.Tag}, sc, out); err != nil {
			return err
		}
		for _, c := range s.Body.List {
			cc := c.(*ast.CaseClause)
			if err := f.operands(cc.List, sc, out); err != nil {
				return err
			}
		}
		for _, c := range s.Body.List {
			cc := c.(*ast.CaseClause)
			if err := f.maybe("switch-clause", cc, cc.Body, sc, out, indent); err != nil {
				return err
			}
		}
		return nil
	case *ast.TypeSwitchStmt:
		sc = sc.clone()
		if s.Init != nil {
			if err := f.stmt(s.Init, sc, out, indent); err != nil {
				return err
			}
		}
		var ta ast.Expr
		var bound ast.Expr
		switch a := s.Assign.(type) {
		case *ast.AssignStmt:
			ta, bound = a.Rhs[0], a.Lhs[0]
		case *ast.ExprStmt:
			ta = a.X
		}
		// the operand may be the `any` parameter itself: a type switch never panics
		if x, ok := ta.(*ast.TypeAssertExpr); !ok || x.Type != nil {
			return f.g.errf(s, "%s: type switch form", f.name)
		} else if r, err := f.expr(x.X, sc, out); err != nil {
			return err
		} else if r >= 0 && f.sorts[r] != rgIface {
			return f.g.errf(s, "%s: type switch on a reflect object", f.name)
		}
		if bound != nil {
			f.unbind(bound, sc) // the clause variable has a static type (or is the parameter again, not followed)
		}
		for _, c := range s.Body.List {
			cc := c.(*ast.CaseClause)
			if err := f.maybe("type-switch-clause", cc, cc.Body, sc, out, indent); err != nil {
				return err
			}
		}
		return nil
	}
	return f.g.errf(s, "%s: statement form not modelled", f.name)
}

func rgIsAny(t ast.Expr) bool {
	if id, ok := t.(*ast.Ident); ok && id.Name == "any" {
		return true
	}
	it, ok := t.(*ast.InterfaceType)
	return ok && (it.Methods == nil || len(it.Methods.List) == 0)
}

func genReflectGuards(repo string) (string, error) {
	g := &btGen{fset: token.NewFileSet()}
	var err error
	g.file, err = parser.ParseFile(g.fset, filepath.Join(repo, "builtin", "builtin.go"), nil, 0)
	if err != nil {
		return "", err
	}
	var out strings.Builder
	out.WriteString("import ScriggoV.Model.ReflectGuards\n")
	out.WriteString("/-! Guard order and reflect operations of the builtins that take an `any` argument, regenerated from\n/repo/builtin/builtin.go. Register 0 is the `any` parameter. -/\n")
	out.WriteString("namespace ScriggoV.Gen.ReflectGuards\nopen ScriggoV.Reflect\n\n")

	var anyFuncs, errFuncs, progs []string
	for _, d := range g.file.Decls {
		fd, ok := d.(*ast.FuncDecl)
		if !ok || fd.Recv != nil || fd.Body == nil || !fd.Name.IsExported() {
			continue
		}
		if r := fd.Type.Results; r != nil && len(r.List) > 0 {
			if id, ok := r.List[len(r.List)-1].Type.(*ast.Ident); ok && id.Name == "error" {
				errFuncs = append(errFuncs, fd.Name.Name)
			}
		}
		var anyParams []string
		hasAny := false
		for _, p := range fd.Type.Params.List {
			t := p.Type
			if el, ok := t.(*ast.Ellipsis); ok {
				hasAny = hasAny || rgIsAny(el.Elt)
				continue
			}
			if rgIsAny(t) {
				hasAny = true
				for _, n := range p.Names {
					anyParams = append(anyParams, n.Name)
				}
			}
		}
		if hasAny {
			anyFuncs = append(anyFuncs, fd.Name.Name)
		}
		usesReflect := len(findNodes(fd.Body, func(s *ast.SelectorExpr) bool { return btIsIdent(s.X, "reflect") })) > 0
		if !usesReflect {
			continue
		}
		if len(anyParams) != 1 {
			return "", g.errf(fd.Name, "%s uses package reflect but has %d parameters of type any (expected exactly one)", fd.Name.Name, len(anyParams))
		}
		name := fd.Name.Name
		lower := []rune(name)
		lower[0] = unicode.ToLower(lower[0])
		f := &rgFn{g: g, name: name, docPrefix: string(lower) + ": ", next: 1, sorts: map[int]rgSort{0: rgIface}}
		if r := fd.Type.Results; r != nil && len(r.List) > 0 {
			id, ok := r.List[len(r.List)-1].Type.(*ast.Ident)
			f.errResult = ok && id.Name == "error"
		}
		body, err := f.block(fd.Body.List, rgScope{anyParams[0]: 0}, "  ")
		if err != nil {
			return "", err
		}
		fmt.Fprintf(&out, "/-- `func %s%s`: parameter `%s` is register 0; documented panics start with %q -/\n", name, g.src(fd.Type)[4:], anyParams[0], f.docPrefix)
		fmt.Fprintf(&out, "def prog%s : List Stmt := %s\n\n", name, rgList(body, "  "))
		progs = append(progs, name)
	}
	if len(progs) == 0 {
		return "", fmt.Errorf("shape not recognised: no builtin applies package reflect to an `any` parameter")
	}
	sort.Strings(anyFuncs)
	sort.Strings(errFuncs)
	q := func(names []string) string {
		var qs []string
		for _, n := range names {
			qs = append(qs, strconv.Quote(n))
		}
		return "[" + strings.Join(qs, ", ") + "]"
	}
	out.WriteString("/-- the programs above, by function name -/\ndef progs : List (String × List Stmt) := [")
	for i, p := range progs {
		if i > 0 {
			out.WriteString(", ")
		}
		fmt.Fprintf(&out, "(%q, prog%s)", p, p)
	}
	out.WriteString("]\n\n")
	fmt.Fprintf(&out, "/-- exported functions of builtin.go with a parameter of type `any` or `...any` -/\ndef anyParamFuncs : List String := %s\n\n", q(anyFuncs))
	fmt.Fprintf(&out, "/-- exported functions of builtin.go whose last result is `error` -/\ndef errorResultFuncs : List String := %s\n\n", q(errFuncs))
	out.WriteString("end ScriggoV.Gen.ReflectGuards\n")
	return out.String(), nil
}
