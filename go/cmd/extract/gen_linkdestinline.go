package main

// Generator "LinkDestInline" (property C29): regenerates from /repo/cmd/scriggo/linkdestination.go
// the ORDER of the tests in the per-byte loop of scanInlineLinks:
//
//	for i := 0; i < len(line); {
//		c := line[i]
//		if codeSpanLen > 0 { … }                     codeSpan
//		if html.rawCloser != "" { … }                rawCloser
//		if html.rawTag != "" { … }                   rawTag
//		if len(linkStack) == 0 && c == '<' { … }     htmlOpen
//		if html.inHTML() { … }                       inHTML
//		if c == '\\' && … util.IsPunct(line[i+1]) {} escape
//		if c == '`' { … }                            backtick
//		if c == '[' { … }                            openBracket
//		if c == ']' { … }                            closeBracket
//		i++
//	}
//
// Each test is recognised by its condition; the text of each `if` statement (what the test does
// when it applies) is pinned by a hash, as is the function around the loop — Model/LinkDestInline.lean
// has one hand-written handler per test. What is free is the order: `loopOrder` lists the tests
// as the source has them, the model tries its handlers in that order, and the theorems of
// Props/C29.lean (codespan_content_literal, escape_after_literal_contexts) are about that list.
// Uses the helpers of gen_mdtables.go.

import (
	"crypto/sha256"
	"encoding/hex"
	"fmt"
	"go/ast"
	"path/filepath"
	"strings"
)

func init() {
	generators = append(generators, generator{name: "LinkDestInline", run: genLinkDestInline})
}

type liTest struct {
	name, cond, pin string
}

var liTests = []liTest{
	{"codeSpan", "codeSpanLen > 0", "4ca79f097dc8c287"}, // after fix 8b404d9 (a backtick string of another length is passed over as a whole)
	{"rawCloser", `html.rawCloser != ""`, "22d6c2ccf409dd33"},
	{"rawTag", `html.rawTag != ""`, "e1e14a095f2ff378"},
	{"htmlOpen", "len(linkStack) == 0 && c == '<'", "f35d3fc971a5c77b"},
	{"inHTML", "html.inHTML()", "014e758587e010c0"},
	{"escape", `c == '\\' && i+1 < len(line) && util.IsPunct(line[i+1])`, "0ccba46c63a8e746"},
	{"backtick", "c == '`'", "e02e8d2f3ac52c3e"},
	{"openBracket", "c == '['", "e1a40688ec03e4a3"},
	{"closeBracket", "c == ']'", "0025f0249aa32922"},
}

// the function with the loop's tests cut out
const liFramePin = "46e401ce0bdb8618"

// the functions the handlers call
var liPinned = map[string]string{
	"parseInlineDestination": "e0808a14527a4c07",
	"parseTitleAndClose":     "2f2b3e1d359c8283",
	"skipSpaces":             "6f400897ec1a668f",
}

func liHash(s string) string {
	h := sha256.Sum256([]byte(s))
	return hex.EncodeToString(h[:8])
}

func genLinkDestInline(repo string) (string, error) {
	g, err := mdLoad(filepath.Join(repo, "cmd", "scriggo", "linkdestination.go"))
	if err != nil {
		return "", err
	}
	for name := range liPinned {
		if err := g.pinned(name, "", liPinned); err != nil {
			return "", err
		}
	}
	fn := g.funcs["method:scanInlineLinks"]
	if fn == nil {
		return "", fmt.Errorf("shape not recognised: method scanInlineLinks not found")
	}
	var loop *ast.ForStmt
	for _, st := range fn.Body.List {
		if f, ok := st.(*ast.ForStmt); ok {
			if loop != nil {
				return "", fmt.Errorf("shape not recognised: scanInlineLinks has more than one loop")
			}
			loop = f
		}
	}
	if loop == nil || loop.Post != nil || g.src(loop.Init) != "i := 0" || g.src(loop.Cond) != "i < len(line)" {
		return "", fmt.Errorf("shape not recognised: scanInlineLinks: expected `for i := 0; i < len(line); { … }`")
	}
	body := loop.Body.List
	if len(body) != len(liTests)+2 || g.src(body[0]) != "c := line[i]" || g.src(body[len(body)-1]) != "i++" {
		return "", fmt.Errorf("shape not recognised: scanInlineLinks: the loop has %d statements, expected `c := line[i]`, %d tests, `i++`", len(body), len(liTests))
	}
	var order []string
	seen := map[string]bool{}
	frame := g.src(fn)
	for k, st := range body[1 : len(body)-1] {
		is, ok := st.(*ast.IfStmt)
		if !ok || is.Init != nil || is.Else != nil {
			return "", fmt.Errorf("shape not recognised: scanInlineLinks: statement %d of the loop is not a plain `if`", k+2)
		}
		cond := g.src(is.Cond)
		var t *liTest
		for j := range liTests {
			if liTests[j].cond == cond {
				t = &liTests[j]
			}
		}
		if t == nil {
			return "", fmt.Errorf("shape not recognised: scanInlineLinks: unknown test `%s` in the loop", cond)
		}
		if seen[t.name] {
			return "", fmt.Errorf("shape not recognised: scanInlineLinks: test `%s` occurs twice", cond)
		}
		seen[t.name] = true
		text := g.src(is)
		if got := liHash(text); got != t.pin {
			return "", fmt.Errorf("shape not recognised: scanInlineLinks: what the test `%s` does has changed (source hash %s, the handler %s of the model was written for %s): re-read it and update the hand-written model", cond, got, t.name, t.pin)
		}
		if strings.Count(frame, text) != 1 {
			return "", fmt.Errorf("shape not recognised: scanInlineLinks: the statement of test `%s` occurs %d times", cond, strings.Count(frame, text))
		}
		frame = strings.Replace(frame, text, "<<"+"TEST"+">>", 1)
		order = append(order, t.name)
	}
	if got := liHash(frame); got != liFramePin {
		return "", fmt.Errorf("shape not recognised: scanInlineLinks changed outside the tests of its loop (source hash %s, model was written for %s): re-read it and update the hand-written model", got, liFramePin)
	}
	var out strings.Builder
	out.WriteString("/-! The order of the tests in the per-byte loop of scanInlineLinks (cmd/scriggo/linkdestination.go). -/\nnamespace ScriggoV.Gen.LinkDestInline\n\n")
	out.WriteString("/-- the tests of the loop, named by what they look at -/\ninductive Test\n")
	for _, t := range liTests {
		fmt.Fprintf(&out, "  | %s  -- `%s`\n", t.name, t.cond)
	}
	out.WriteString("  deriving DecidableEq, Repr\n\n")
	out.WriteString("/-- the tests in source order; the first that applies decides what happens to the byte -/\ndef loopOrder : List Test :=\n  [")
	for i, n := range order {
		if i > 0 {
			out.WriteString(", ")
		}
		out.WriteString("." + n)
	}
	out.WriteString("]\n\nend ScriggoV.Gen.LinkDestInline\n")
	return out.String(), nil
}
