package main

// Generator "Universe" (property C19): regenerates from /repo
//
//	universe        internal/compiler/checker_scopes.go, `var universe = map[string]scopeName{…}`:
//	                every identifier of the universe block with its kind, read off the typeInfo
//	                literal (propertyIsType → type, Constant: → const, propertyAddressable → var,
//	                propertyUntyped alone → nil, a Type alone → iota, nothing but propertyUniverse
//	                → builtin function)
//	formatTypeNames internal/compiler/compiler.go, `var formatTypeName = [...]string{…}`: the names
//	                of the format types newScopes puts in the second universe block
//	builtinEmits    internal/compiler/emitter.go, emitBuiltin: for every `case "name":` the
//	                function-builder instructions (`em.fb.emitXxx`) its body emits directly
//	goGate          internal/compiler/checker_statements.go: the condition and message guarding `go`
//	importNil       …, checkImport: the three `cannot find package` / importer-error exits of the
//	                native-import branch, in order
//	lookupOrder     checker_scopes.go, scopes.lookup: the loop bounds (innermost to outermost)
//
// so that a new builtin, a builtin that starts emitting a host-reaching instruction, a change of
// the gate or of the import exits changes a definition the C19 theorems are stated over.
// Anything outside the expected shapes is "shape not recognised". Helpers are prefixed `un`.

import (
	"fmt"
	"go/ast"
	"go/token"
	"path/filepath"
	"sort"
	"strconv"
	"strings"
)

func init() {
	generators = append(generators, generator{name: "Universe", run: genUniverse})
}

func unFlags(g *vbFile, e ast.Expr) ([]string, error) {
	switch e := e.(type) {
	case *ast.Ident:
		return []string{e.Name}, nil
	case *ast.BinaryExpr:
		if e.Op != token.OR {
			return nil, g.errf(e, "Properties is not an |-combination of flags")
		}
		a, err := unFlags(g, e.X)
		if err != nil {
			return nil, err
		}
		b, err := unFlags(g, e.Y)
		if err != nil {
			return nil, err
		}
		return append(a, b...), nil
	}
	return nil, g.errf(e, "Properties is not an |-combination of flags")
}

func genUniverse(repo string) (string, error) {
	var b strings.Builder
	b.WriteString("/-! The universe block, the builtins' emitted instructions, the `go` gate and the exits of a\nnative import, re-read from the code. -/\nnamespace ScriggoV.Gen.Universe\n\n")
	b.WriteString("/-- what an identifier of the universe block is -/\ninductive UKind\n  | builtin | type | const | var | nilValue | iota\n  deriving DecidableEq, Repr\n\n")

	// 1. universe
	cs, err := vbParse(filepath.Join(repo, "internal/compiler/checker_scopes.go"))
	if err != nil {
		return "", err
	}
	var uni *ast.CompositeLit
	for _, d := range cs.file.Decls {
		gd, ok := d.(*ast.GenDecl)
		if !ok || gd.Tok != token.VAR {
			continue
		}
		for _, sp := range gd.Specs {
			vs := sp.(*ast.ValueSpec)
			if len(vs.Names) == 1 && vs.Names[0].Name == "universe" && len(vs.Values) == 1 {
				if cl, ok := vs.Values[0].(*ast.CompositeLit); ok && cs.src(cl.Type) == "map[string]scopeName" {
					uni = cl
				}
			}
		}
	}
	if uni == nil {
		return "", fmt.Errorf("shape not recognised: var universe = map[string]scopeName{…} not found")
	}
	type uent struct{ name, kind string }
	var ents []uent
	for _, el := range uni.Elts {
		kv, ok := el.(*ast.KeyValueExpr)
		if !ok {
			return "", cs.errf(el, "universe element")
		}
		name, ok := vbStringLit(kv.Key)
		if !ok {
			return "", cs.errf(kv.Key, "universe key")
		}
		sn, ok := kv.Value.(*ast.CompositeLit)
		if !ok || len(sn.Elts) != 1 {
			return "", cs.errf(kv.Value, "scopeName literal with the single field ti")
		}
		tikv, ok := sn.Elts[0].(*ast.KeyValueExpr)
		if !ok || cs.src(tikv.Key) != "ti" {
			return "", cs.errf(sn, "scopeName literal with the single field ti")
		}
		ue, ok := tikv.Value.(*ast.UnaryExpr)
		if !ok || ue.Op != token.AND {
			return "", cs.errf(tikv.Value, "&typeInfo{…}")
		}
		ti, ok := ue.X.(*ast.CompositeLit)
		if !ok || cs.src(ti.Type) != "typeInfo" {
			return "", cs.errf(tikv.Value, "&typeInfo{…}")
		}
		var flags []string
		fields := map[string]bool{}
		for _, f := range ti.Elts {
			fkv, ok := f.(*ast.KeyValueExpr)
			if !ok {
				return "", cs.errf(f, "typeInfo field")
			}
			fn := cs.src(fkv.Key)
			switch fn {
			case "Properties":
				if flags, err = unFlags(cs, fkv.Value); err != nil {
					return "", err
				}
			case "Type", "Constant", "Alias":
			default:
				return "", cs.errf(fkv, "typeInfo field of a universe entry that is not Properties/Type/Constant/Alias")
			}
			fields[fn] = true
		}
		has := map[string]bool{}
		for _, f := range flags {
			switch f {
			case "propertyUniverse", "propertyIsType", "propertyUntyped", "propertyAddressable", "propertyIsFormatType":
				has[f] = true
			default:
				return "", cs.errf(kv, "unknown property flag %s of a universe entry", f)
			}
		}
		if !has["propertyUniverse"] {
			return "", cs.errf(kv, "universe entry without propertyUniverse")
		}
		kind := ""
		switch {
		case has["propertyIsType"] && fields["Type"] && !fields["Constant"]:
			kind = ".type"
		case fields["Constant"] && !has["propertyIsType"]:
			kind = ".const"
		case has["propertyAddressable"]:
			kind = ".var"
		case has["propertyUntyped"] && !fields["Type"]:
			kind = ".nilValue"
		case fields["Type"]:
			kind = ".iota"
		case len(flags) == 1 && len(fields) == 1:
			kind = ".builtin"
		default:
			return "", cs.errf(kv, "cannot classify universe entry")
		}
		ents = append(ents, uent{name, kind})
	}
	sort.Slice(ents, func(i, j int) bool { return ents[i].name < ents[j].name })
	b.WriteString("/-- checker_scopes.go: the universe block (sorted by name) -/\ndef universeBlock : List (String × UKind) := [\n")
	for i, e := range ents {
		sep := ","
		if i == len(ents)-1 {
			sep = ""
		}
		fmt.Fprintf(&b, "  (%s, %s)%s\n", strconv.Quote(e.name), e.kind, sep)
	}
	b.WriteString("]\n\n")

	// lookup order
	lk, err := cs.fn("scopes", "lookup")
	if err != nil {
		return "", err
	}
	if got := cs.src(lk.Body); got != "{ for i := len(scopes.s) - 1; i >= start; i-- { if n, ok := scopes.s[i].names[name]; ok { return n, i } } return scopeName{}, -1 }" {
		return "", cs.errf(lk.Body, "scopes.lookup is not the innermost-to-outermost loop")
	}
	lu, err := cs.fn("scopes", "Lookup")
	if err != nil {
		return "", err
	}
	if !strings.HasPrefix(cs.src(lu.Body), "{ n, i := scopes.lookup(name, 0) ") {
		return "", cs.errf(lu.Body, "scopes.Lookup does not start the lookup at scope 0")
	}
	ns, err := cs.fn("", "newScopes")
	if err != nil {
		return "", err
	}
	if !strings.Contains(cs.src(ns.Body), "s: []scope{{names: universe}, formatScope, {names: global}, {names: map[string]scopeName{}}}") {
		return "", cs.errf(ns.Body, "newScopes does not build [universe, formats, global, file/package]")
	}
	b.WriteString("/-- checker_scopes.go: newScopes builds the blocks in this order (outermost first) and\n`scopes.lookup` walks them from the innermost to the outermost, `Lookup` starting at 0 -/\ndef blockOrder : List String := [\"universe\", \"formats\", \"global\", \"filePackage\"]\ndef lookupInnermostFirst : Bool := true\n\n")

	// 2. format type names
	cp, err := vbParse(filepath.Join(repo, "internal/compiler/compiler.go"))
	if err != nil {
		return "", err
	}
	var names []string
	ast.Inspect(cp.file, func(n ast.Node) bool {
		vs, ok := n.(*ast.ValueSpec)
		if ok && len(vs.Names) == 1 && vs.Names[0].Name == "formatTypeName" && len(vs.Values) == 1 {
			if cl, ok := vs.Values[0].(*ast.CompositeLit); ok {
				for _, e := range cl.Elts {
					if s, ok := vbStringLit(e); ok {
						names = append(names, s)
					} else {
						names = nil
						return false
					}
				}
			}
		}
		return true
	})
	if len(names) == 0 {
		return "", fmt.Errorf("shape not recognised: var formatTypeName = [...]string{…}")
	}
	b.WriteString("/-- compiler.go: names of the format types (second universe block) -/\ndef formatTypeNames : List String := [")
	for i, n := range names {
		if i > 0 {
			b.WriteString(", ")
		}
		b.WriteString(strconv.Quote(n))
	}
	b.WriteString("]\n\n")

	// 3. emitBuiltin
	em, err := vbParse(filepath.Join(repo, "internal/compiler/emitter.go"))
	if err != nil {
		return "", err
	}
	eb, err := em.fn("emitter", "emitBuiltin")
	if err != nil {
		return "", err
	}
	sw, err := vbOne(em, eb, "switch call.Func.(*ast.Identifier).Name", func(s *ast.SwitchStmt) bool {
		return s.Tag != nil && em.src(s.Tag) == "call.Func.(*ast.Identifier).Name"
	})
	if err != nil {
		return "", err
	}
	type bent struct {
		name string
		ops  []string
	}
	var bents []bent
	for _, c := range sw.Body.List {
		cc := c.(*ast.CaseClause)
		if cc.List == nil {
			if len(cc.Body) != 1 || !strings.HasPrefix(em.src(cc.Body[0]), "panic(") {
				return "", em.errf(cc, "default clause of emitBuiltin is not a panic")
			}
			continue
		}
		ops := map[string]bool{}
		for _, s := range cc.Body {
			ast.Inspect(s, func(n ast.Node) bool {
				if call, ok := n.(*ast.CallExpr); ok {
					f := em.src(call.Fun)
					if strings.HasPrefix(f, "em.fb.emit") {
						ops[strings.TrimPrefix(f, "em.fb.")] = true
					} else if strings.HasPrefix(f, "em.emit") {
						ops[strings.TrimPrefix(f, "em.")] = true
					}
				}
				return true
			})
		}
		var list []string
		for o := range ops {
			list = append(list, o)
		}
		sort.Strings(list)
		for _, e := range cc.List {
			name, ok := vbStringLit(e)
			if !ok {
				return "", em.errf(e, "case of emitBuiltin")
			}
			bents = append(bents, bent{name, list})
		}
	}
	sort.Slice(bents, func(i, j int) bool { return bents[i].name < bents[j].name })
	b.WriteString("/-- emitter.go, emitBuiltin: the emit methods each builtin's clause calls (sorted) -/\ndef builtinEmits : List (String × List String) := [\n")
	for i, e := range bents {
		var q []string
		for _, o := range e.ops {
			q = append(q, strconv.Quote(o))
		}
		sep := ","
		if i == len(bents)-1 {
			sep = ""
		}
		fmt.Fprintf(&b, "  (%s, [%s])%s\n", strconv.Quote(e.name), strings.Join(q, ", "), sep)
	}
	b.WriteString("]\n\n")

	// 4. go gate and native import exits
	st, err := vbParse(filepath.Join(repo, "internal/compiler/checker_statements.go"))
	if err != nil {
		return "", err
	}
	var goCase *ast.CaseClause
	ast.Inspect(st.file, func(n ast.Node) bool {
		if cc, ok := n.(*ast.CaseClause); ok && len(cc.List) == 1 && st.src(cc.List[0]) == "*ast.Go" {
			goCase = cc
		}
		return true
	})
	if goCase == nil {
		return "", fmt.Errorf("shape not recognised: case *ast.Go not found")
	}
	gate, err := vbOne(st, goCase, "if !tc.opts.allowGoStmt", func(s *ast.IfStmt) bool { return st.src(s.Cond) == "!tc.opts.allowGoStmt" })
	if err != nil {
		return "", err
	}
	if len(gate.Body.List) != 1 || gate.Else != nil || st.src(gate.Body.List[0]) != `panic(tc.errorf(node, "\"go\" statement not available"))` {
		return "", st.errf(gate, "body of the go gate")
	}
	// the gate is a direct statement of the case (not nested in a condition)
	direct := false
	for _, s := range goCase.Body {
		if s == ast.Stmt(gate) {
			direct = true
		}
	}
	if !direct {
		return "", st.errf(gate, "the go gate is nested inside another statement")
	}
	b.WriteString("/-- checker_statements.go, case *ast.Go: `if !tc.opts.allowGoStmt { panic(…\"go\" statement not available…) }`\nis a direct statement of the clause -/\ndef goGateUnconditional : Bool := true\ndef goGateMessage : String := \"\\\"go\\\" statement not available\"\n\n")

	ci, err := st.fn("typechecker", "checkImport")
	if err != nil {
		return "", err
	}
	if len(ci.Body.List) == 0 {
		return "", st.errf(ci, "checkImport body")
	}
	nat, ok := ci.Body.List[0].(*ast.IfStmt)
	if !ok || st.src(nat.Cond) != "impor.Tree == nil" {
		return "", st.errf(ci.Body.List[0], "checkImport does not start with `if impor.Tree == nil`")
	}
	var exits []string
	for _, s := range nat.Body.List {
		is, ok := s.(*ast.IfStmt)
		if !ok {
			if as, ok := s.(*ast.AssignStmt); ok && st.src(as) == "pkg, err := tc.importer.Import(impor.Path)" {
				exits = append(exits, "import")
			}
			continue
		}
		switch st.src(is.Cond) {
		case "tc.importer == nil", "err != nil", "pkg == nil":
			if len(is.Body.List) != 1 || !strings.HasPrefix(st.src(is.Body.List[0]), "return tc.errorf(impor, ") {
				return "", st.errf(is, "exit of the native import branch does not return an error")
			}
			exits = append(exits, st.src(is.Cond))
		case "isBlankImport(impor)":
			exits = append(exits, "blank")
		}
		if len(exits) == 5 {
			break
		}
	}
	want := []string{"tc.importer == nil", "import", "err != nil", "pkg == nil", "blank"}
	if strings.Join(exits, ";") != strings.Join(want, ";") {
		return "", st.errf(nat, "native import branch is not [nil importer → error; Import; error → error; nil package → error; blank import; …], got %v", exits)
	}
	// no other call of an Import method, and no other source of packages, in the checker
	b.WriteString("/-- checker_statements.go, checkImport, native branch: a nil importer, an importer error and a nil\npackage each return an error before anything is declared -/\ndef importExits : List String := [\"nil-importer\", \"importer-error\", \"nil-package\"]\n\n")
	b.WriteString("end ScriggoV.Gen.Universe\n")
	return b.String(), nil
}
