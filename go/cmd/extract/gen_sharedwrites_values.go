package main

// Part of generator "SharedWrites" (property C10): WHAT is written at every write site.
//
// For every site of writeSites the type of the stored value (right-hand side of the assignment,
// arguments of the mutating method call) and the verdict `perRun`: can a value of that type carry
// state that belongs to ONE run? It can when the type is, or reaches through pointers, slices,
// arrays, maps, channels and struct fields,
//
//	runtime.env / runtime.VM / runtime.callable   (a callable holds the run's globals in `vars`
//	                                               and caches a reflect.MakeFunc bound to its env)
//	reflect.Value, an interface, a func            (may hold anything, closures capture)
//
// Shared types themselves (Function, NativeFunction, …) are not followed: what they hold is decided
// by their own write sites. Basic types and strings carry nothing.

import (
	"fmt"
	"go/ast"
	"go/types"
	"strings"
)

var swPerRunNames = map[string]bool{"env": true, "VM": true, "callable": true}

func (s *swScan) perRunType(t types.Type, depth int, seen map[types.Type]bool) bool {
	if t == nil || depth > 8 || seen[t] {
		return false
	}
	seen[t] = true
	if n, ok := t.(*types.Named); ok && n.Obj().Pkg() != nil {
		if n.Obj().Pkg().Path() == "reflect" && n.Obj().Name() == "Value" {
			return true
		}
		if strings.HasSuffix(n.Obj().Pkg().Path(), "/internal/runtime") && swPerRunNames[n.Obj().Name()] {
			return true
		}
		if s.shared[n.Obj()] {
			return false
		}
	}
	switch u := t.Underlying().(type) {
	case *types.Interface, *types.Signature:
		return true
	case *types.Pointer:
		return s.perRunType(u.Elem(), depth+1, seen)
	case *types.Slice:
		return s.perRunType(u.Elem(), depth+1, seen)
	case *types.Array:
		return s.perRunType(u.Elem(), depth+1, seen)
	case *types.Chan:
		return s.perRunType(u.Elem(), depth+1, seen)
	case *types.Map:
		return s.perRunType(u.Key(), depth+1, seen) || s.perRunType(u.Elem(), depth+1, seen)
	case *types.Struct:
		for i := 0; i < u.NumFields(); i++ {
			if s.perRunType(u.Field(i).Type(), depth+1, seen) {
				return true
			}
		}
	}
	return false
}

// storedValue returns the type(s) of what statement stmt stores at location loc.
func (s *swScan) storedValue(loc ast.Expr, stmt ast.Node) (string, bool) {
	qual := func(p *types.Package) string { return p.Name() }
	var ts []types.Type
	if s.curCall != nil {
		for _, a := range s.curCall.Args {
			if t := s.info.TypeOf(a); t != nil {
				ts = append(ts, t)
			}
		}
		if len(s.curCall.Args) == 0 {
			return "-", false
		}
	} else if as, ok := stmt.(*ast.AssignStmt); ok && len(as.Lhs) == len(as.Rhs) {
		for i, l := range as.Lhs {
			if l == loc {
				if t := s.info.TypeOf(as.Rhs[i]); t != nil {
					ts = append(ts, t)
				}
			}
		}
	}
	if len(ts) == 0 { // ++/--, builtins, tuple assignments, &x: the type of the location itself
		if t := s.info.TypeOf(loc); t != nil {
			ts = append(ts, t)
		}
	}
	var names []string
	per := false
	for _, t := range ts {
		names = append(names, types.TypeString(t, qual))
		if s.perRunType(t, 0, map[types.Type]bool{}) {
			per = true
		}
	}
	return strings.Join(names, ", "), per
}

func swEmitStoredValues(b *strings.Builder, sites []swSite) {
	b.WriteString("/-- what a write site stores: enclosing function, root (the shared type the location lies in), target (shared type and field first met), location, type of the\nstored value, whether a value of that type can carry state of ONE run (it is or reaches runtime.env / VM / callable, a\nreflect.Value, an interface or a func; shared types are not followed), hash of the statement -/\nstructure StoredValue where\n  fn : String\n  root : String\n  target : String\n  lhs : String\n  vtype : String\n  perRun : Bool\n  hash : String\nderiving DecidableEq, Repr\n\n")
	b.WriteString("/-- for every site of `writeSites`, in the same order: what is stored there -/\ndef storedValues : List StoredValue := [")
	for i, s := range sites {
		if i > 0 {
			b.WriteString(",")
		}
		root, _, _ := strings.Cut(s.target, ".")
		fmt.Fprintf(b, "\n  ⟨%s, %s, %s, %s, %s, %v, %s⟩", swLeanStr(s.fn), swLeanStr(root), swLeanStr(s.target), swLeanStr(s.lhs), swLeanStr(s.vtype), s.perRun, swLeanStr(s.hash))
	}
	b.WriteString("]\n\n")
}
