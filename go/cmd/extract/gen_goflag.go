package main

// Generator "GoFlag" (property C14): the VM's "start the next native call as a goroutine" flag.
//
// OpGo calls vm.startGoroutine(); for a Scriggo callee that starts the function on a new VM and
// skips the call instruction, for a native callee it returns true, OpGo sets the local flag
// `startNativeGoroutine` of (*VM).run and the call instruction that follows (OpCallNative, or
// OpCallIndirect with a native callee) hands the flag to vm.callNative and must reset it — a flag
// left set starts the NEXT native call of the activation as a goroutine as well.
//
// Emitted: for OpGo and every call instruction (OpCallFunc, OpCallIndirect, OpCallMacro,
// OpCallNative) the control-flow skeleton of the clause with respect to the flag (tree `F`: set,
// clear, use = passed to vm.callNative, under the if/for/switch structure), the list of clauses
// that mention the flag at all, how the flag is declared, and the return statements of
// startGoroutine with the switch case / conditions they are under and the number of `vm.pc++`
// statements before them. Anything else is "shape not recognised".

import (
	"fmt"
	"go/ast"
	"go/parser"
	"go/token"
	"path/filepath"
	"sort"
	"strings"
)

func init() {
	generators = append(generators, generator{name: "GoFlag", run: genGoFlag})
}

const gfFlag = "startNativeGoroutine"

type gfConv struct {
	fset *token.FileSet
	err  error
}

func (c *gfConv) fail(format string, a ...any) {
	if c.err == nil {
		c.err = fmt.Errorf("shape not recognised: "+format, a...)
	}
}

func (c *gfConv) simple(n ast.Node) []string {
	t := swText(c.fset, n)
	if !strings.Contains(t, gfFlag) && !strings.Contains(t, "vm.startGoroutine()") && !strings.Contains(t, "vm.callNative(") {
		return nil
	}
	switch {
	case t == gfFlag+" = true":
		return []string{".set"}
	case t == gfFlag+" = false":
		return []string{".clear"}
	case t == "wasNative := vm.startGoroutine()":
		return []string{".start"}
	}
	if es, ok := n.(*ast.ExprStmt); ok {
		if call, ok := es.X.(*ast.CallExpr); ok && swText(c.fset, call.Fun) == "vm.callNative" && len(call.Args) > 0 {
			last := swText(c.fset, call.Args[len(call.Args)-1])
			uses := strings.Count(t, gfFlag)
			switch {
			case last == gfFlag && uses == 1:
				return []string{".use"}
			case last == "false" && uses == 0:
				return []string{".callSync"}
			}
		}
	}
	c.fail("statement on the flag: %s", swHead(t))
	return nil
}

func (c *gfConv) cond(e ast.Expr) string {
	t := swText(c.fset, e)
	switch {
	case t == "wasNative":
		return ".wasNative"
	case t == "f.fn == nil":
		return ".nativeCallee"
	case strings.Contains(t, gfFlag) || strings.Contains(t, "wasNative"):
		c.fail("condition on the flag: %s", t)
	}
	return ".other " + swLeanStr(swHead(t))
}

func (c *gfConv) stmts(list []ast.Stmt) []string {
	var out []string
	for _, s := range list {
		out = append(out, c.stmt(s)...)
	}
	return out
}

func (c *gfConv) stmt(s ast.Stmt) []string {
	switch x := s.(type) {
	case nil:
		return nil
	case *ast.BlockStmt:
		return c.stmts(x.List)
	case *ast.ReturnStmt:
		if strings.Contains(swText(c.fset, x), gfFlag) {
			c.fail("return: %s", swText(c.fset, x))
		}
		return []string{".ret"}
	case *ast.BranchStmt:
		if x.Label != nil || (x.Tok != token.BREAK && x.Tok != token.CONTINUE) {
			c.fail("%s", swText(c.fset, x))
			return nil
		}
		if x.Tok == token.BREAK {
			return []string{".brk"}
		}
		return []string{".cont"}
	case *ast.IfStmt:
		out := c.stmt(x.Init)
		th, el := c.stmts(x.Body.List), c.stmt(x.Else)
		if len(th) == 0 && len(el) == 0 {
			if strings.Contains(swText(c.fset, x.Cond), gfFlag) {
				c.fail("condition on the flag: %s", swText(c.fset, x.Cond))
			}
			return out
		}
		return append(out, fmt.Sprintf(".ite (%s) %s %s", c.cond(x.Cond), cbList(th), cbList(el)))
	case *ast.ForStmt:
		for _, n := range []ast.Node{x.Init, x.Cond, x.Post} {
			if n != nil && strings.Contains(swText(c.fset, n), gfFlag) {
				c.fail("for header: %s", swText(c.fset, n))
			}
		}
		if body := c.stmts(x.Body.List); len(body) > 0 {
			return []string{fmt.Sprintf(".loop %s", cbList(body))}
		}
		return nil
	case *ast.RangeStmt:
		if body := c.stmts(x.Body.List); len(body) > 0 {
			return []string{fmt.Sprintf(".loop %s", cbList(body))}
		}
		return nil
	case *ast.SwitchStmt, *ast.TypeSwitchStmt:
		var body *ast.BlockStmt
		if sw, ok := x.(*ast.SwitchStmt); ok {
			body = sw.Body
		} else {
			body = x.(*ast.TypeSwitchStmt).Body
		}
		var branches []string
		hasDefault, any := false, false
		for _, cl := range body.List {
			cc := cl.(*ast.CaseClause)
			hasDefault = hasDefault || cc.List == nil
			b := c.stmts(cc.Body)
			any = any || len(b) > 0
			branches = append(branches, cbList(b))
		}
		if !hasDefault {
			branches = append(branches, "[]")
		}
		if !any {
			return nil
		}
		return []string{fmt.Sprintf(".sw %s", cbList(branches))}
	case *ast.ExprStmt, *ast.AssignStmt, *ast.IncDecStmt, *ast.DeclStmt, *ast.SendStmt, *ast.EmptyStmt:
		return c.simple(s)
	}
	if t := swText(c.fset, s); strings.Contains(t, gfFlag) || strings.Contains(t, "return") {
		c.fail("statement %T: %s", s, swHead(t))
	}
	return nil
}

// prune removes control statements of subtrees in which nothing concerns the flag: a clause
// without set/clear/use/start is rendered as the empty list.
func gfInteresting(tree []string) bool {
	for _, t := range tree {
		for _, k := range []string{".set", ".clear", ".use", ".start", ".callSync"} {
			if strings.Contains(t, k) {
				return true
			}
		}
	}
	return false
}

const gfHeader = `namespace ScriggoV.Gen.GoFlag

inductive Cond where
  | wasNative                          -- the result of vm.startGoroutine()
  | nativeCallee                       -- f.fn == nil: the function value holds a native function
  | other (text : String)
deriving Repr

/-- the control-flow skeleton of a clause of run with respect to the flag -/
inductive F where
  | set                                -- startNativeGoroutine = true
  | clear                              -- startNativeGoroutine = false
  | use                                -- vm.callNative(…, startNativeGoroutine)
  | callSync                           -- vm.callNative(…, false)
  | start                              -- wasNative := vm.startGoroutine()
  | ret | brk | cont
  | ite (c : Cond) (t e : List F)
  | loop (b : List F)
  | sw (branches : List (List F))
deriving Repr

`

func genGoFlag(repo string) (string, error) {
	fset := token.NewFileSet()
	dir := filepath.Join(repo, "internal", "runtime")
	runf, err := parser.ParseFile(fset, filepath.Join(dir, "run.go"), nil, 0)
	if err != nil {
		return "", err
	}
	vmf, err := parser.ParseFile(fset, filepath.Join(dir, "vm.go"), nil, 0)
	if err != nil {
		return "", err
	}
	method := func(f *ast.File, name string) *ast.FuncDecl {
		for _, d := range f.Decls {
			if fd, ok := d.(*ast.FuncDecl); ok && fd.Name.Name == name && fd.Recv != nil && fd.Body != nil {
				return fd
			}
		}
		return nil
	}
	run, sg := method(runf, "run"), method(vmf, "startGoroutine")
	if run == nil || sg == nil {
		return "", fmt.Errorf("shape not recognised: (*VM).run or (*VM).startGoroutine not found")
	}
	// the flag: a bool local of run declared before the instruction loop
	declared := ""
	for _, st := range run.Body.List {
		if _, ok := st.(*ast.ForStmt); ok {
			break
		}
		if t := swText(fset, st); strings.Contains(t, gfFlag) {
			declared = t
		}
	}
	var opSwitch *ast.SwitchStmt
	ast.Inspect(run.Body, func(n ast.Node) bool {
		if sw, ok := n.(*ast.SwitchStmt); ok && opSwitch == nil && sw.Tag != nil && swText(fset, sw.Tag) == "op" {
			opSwitch = sw
		}
		return opSwitch == nil
	})
	if opSwitch == nil {
		return "", fmt.Errorf("shape not recognised: run has no `switch op`")
	}
	var b strings.Builder
	b.WriteString(gfHeader)
	fmt.Fprintf(&b, "/-- how run declares the flag (a local: every activation of run has its own) -/\ndef flagDecl : String := %s\n\n", swLeanStr(declared))
	want := map[string]string{"OpGo": "opGo", "OpCallFunc": "opCallFunc", "OpCallIndirect": "opCallIndirect", "OpCallMacro": "opCallMacro", "OpCallNative": "opCallNative"}
	found := map[string]bool{}
	var mention []string
	for _, cl := range opSwitch.Body.List {
		cc := cl.(*ast.CaseClause)
		var names []string
		for _, e := range cc.List {
			names = append(names, swText(fset, e))
		}
		text := swText(fset, cc)
		touches := strings.Contains(text, gfFlag)
		lean := ""
		for _, n := range names {
			if l, ok := want[n]; ok {
				lean = l
				found[n] = true
			}
		}
		if touches {
			mention = append(mention, strings.Join(names, ","))
		}
		if lean == "" {
			if touches || strings.Contains(text, "vm.callNative(") || strings.Contains(text, "vm.startGoroutine()") {
				return "", fmt.Errorf("shape not recognised: clause %s uses the flag, vm.callNative or vm.startGoroutine", strings.Join(names, ","))
			}
			continue
		}
		c := &gfConv{fset: fset}
		tree := c.stmts(cc.Body)
		if c.err != nil {
			return "", fmt.Errorf("%v (in %s)", c.err, strings.Join(names, ","))
		}
		if !gfInteresting(tree) {
			tree = nil
		}
		fmt.Fprintf(&b, "/-- case %s -/\ndef %s : List F := %s\n\n", strings.Join(names, ", "), lean, cbList(tree))
	}
	for n := range want {
		if !found[n] {
			return "", fmt.Errorf("shape not recognised: run has no `case %s:` clause", n)
		}
	}
	sort.Strings(mention)
	var ms []string
	for _, m := range mention {
		ms = append(ms, swLeanStr(m))
	}
	fmt.Fprintf(&b, "/-- the clauses of run that mention the flag -/\ndef flagClauses : List String := %s\n\n", cbList(ms))
	// outside the switch the flag may only be declared
	outside := strings.Count(swText(fset, run.Body), gfFlag) - strings.Count(swText(fset, opSwitch), gfFlag)
	fmt.Fprintf(&b, "/-- mentions of the flag in run outside the instruction switch (the declaration) -/\ndef flagOutsideSwitch : Nat := %d\n\n", outside)

	// startGoroutine: its return statements
	loader := &swLoader{fset: fset}
	type ret struct {
		ctx, val string
		incs     int
	}
	var rets []ret
	var stack []ast.Node
	incs := 0
	ast.Inspect(sg.Body, func(n ast.Node) bool {
		if n == nil {
			stack = stack[:len(stack)-1]
			return true
		}
		stack = append(stack, n)
		switch x := n.(type) {
		case *ast.FuncLit:
			stack = stack[:len(stack)-1]
			return false
		case *ast.IncDecStmt:
			if swText(fset, x) == "vm.pc++" {
				incs++
			}
		case *ast.ReturnStmt:
			ctx := []string{}
			for i, s := range stack {
				if cc, ok := s.(*ast.CaseClause); ok && i+1 < len(stack) {
					if cc.List == nil {
						ctx = append(ctx, "default")
					} else {
						ctx = append(ctx, "case "+swText(fset, cc.List[0]))
					}
				}
			}
			if cx := swCondCtx(loader, stack); cx != "-" {
				ctx = append(ctx, cx)
			}
			val := ""
			if len(x.Results) == 1 {
				val = swText(fset, x.Results[0])
			}
			rets = append(rets, ret{strings.Join(ctx, "; "), val, incs})
		}
		return true
	})
	b.WriteString("/-- the return statements of startGoroutine: switch case and conditions, value, `vm.pc++` statements before it -/\ndef startGoroutineReturns : List (String × String × Nat) := [")
	for i, r := range rets {
		if i > 0 {
			b.WriteString(",")
		}
		fmt.Fprintf(&b, "\n  (%s, %s, %d)", swLeanStr(r.ctx), swLeanStr(r.val), r.incs)
	}
	b.WriteString("]\n\nend ScriggoV.Gen.GoFlag\n")
	return b.String(), nil
}
