package main

// Part of generator "Encoding" (C20): the list of *immediates* — every narrowing conversion to a
// one- or two-byte integer type (and to registerType / runtime.Context / runtime.Operation) in
// internal/compiler/emitter*.go and builder*.go, i.e. every place where a number is cut to the
// width of an instruction operand — with the expression converted and what bounds it:
//
//	const       a literal or named constant
//	codec       inside an encode…/decode… helper (covered by the round-trip theorems)
//	enum        a register type, kind, condition, direction, format or render context
//	table       an index returned by a guarded table function (rows of the limits table)
//	limitCheck  a preceding `if … { panic(newLimitExceededError(…)) }` on the same quantity
//	range       an enclosing range test (`-128 <= v && v <= 127`, `x <= 127`, else of `x > 127`)
//	register    a register number or a count of registers (bounded by newRegister's guard)
//	heldRegs    a loop count / loop index: bounded only because every iteration of the loop keeps
//	            `held` registers allocated (newRegister outside enterStack/exitStack); held = 0
//	            means nothing bounds it
//	none        nothing found
//
// The Lean side demands a real guard for every entry (heldRegs with held ≥ 1) or an explicit
// entry in the hand-written allow-list stating the indirect bound.

import (
	"fmt"
	"go/ast"
	"go/token"
	"sort"
	"strings"
)

type encImm struct {
	fn, expr, target, pos string
	guard, detail         string
	held                  int
}

var immTargets = map[string]bool{"int8": true, "uint8": true, "int16": true, "uint16": true, "registerType": true, "runtime.Context": true, "runtime.Operation": true}

var immEnumTypes = map[string]bool{"runtime.Condition": true, "reflect.SelectDir": true, "ast.Format": true, "reflect.Kind": true, "registerType": true,
	"ast.Context": true, "runtime.Context": true, "runtime.Operation": true, "bool": true}

// heldRegisters counts the newRegister calls of a loop body that are outside every
// enterStack()/exitStack() (enterScope/exitScope) pair of that body: registers that stay
// allocated after the iteration.
func heldRegisters(p *encPkg, body *ast.BlockStmt) int {
	depth, held := 0, 0
	var visit func(n ast.Node) bool
	visit = func(n ast.Node) bool {
		switch n := n.(type) {
		case *ast.FuncLit:
			return false
		case *ast.CallExpr:
			src := p.src(n.Fun)
			switch {
			case strings.HasSuffix(src, ".enterStack") || strings.HasSuffix(src, ".enterScope"):
				depth++
			case strings.HasSuffix(src, ".exitStack") || strings.HasSuffix(src, ".exitScope"):
				depth--
			case strings.HasSuffix(src, ".newRegister") || strings.HasSuffix(src, ".newIndirectRegister"):
				if depth <= 0 {
					held++
				}
			}
		}
		return true
	}
	// only statements that run on every iteration: the top-level statements of the body; an if
	// counts with the minimum over its branches (0 when there is no else)
	for _, s := range body.List {
		if is, ok := s.(*ast.IfStmt); ok {
			ast.Inspect(is.Cond, visit)
			if is.Else == nil {
				d0, h0 := depth, held
				ast.Inspect(is.Body, visit)
				depth, held = d0, h0
				continue
			}
			d0, h0 := depth, held
			ast.Inspect(is.Body, visit)
			hThen := held
			depth, held = d0, h0
			ast.Inspect(is.Else, visit)
			if hThen < held {
				held = hThen
			}
			depth = d0
			continue
		}
		ast.Inspect(s, visit)
	}
	return held
}

func loopBody(s ast.Stmt) *ast.BlockStmt {
	switch s := s.(type) {
	case *ast.ForStmt:
		return s.Body
	case *ast.RangeStmt:
		return s.Body
	}
	return nil
}

func immediates(comp *encPkg, guardedFuncs map[string]bool) ([]encImm, error) {
	var out []encImm
	for _, fname := range comp.order {
		if !(strings.HasPrefix(fname, "emitter") || strings.HasPrefix(fname, "builder")) {
			continue
		}
		for _, d := range comp.files[fname].Decls {
			fd, ok := d.(*ast.FuncDecl)
			if !ok || fd.Body == nil {
				continue
			}
			fnName := enclosingFuncName(fd)
			codec := fd.Recv == nil && (strings.HasPrefix(fd.Name.Name, "encode") || strings.HasPrefix(fd.Name.Name, "decode"))
			// parameter types and simple local definitions
			paramType := map[string]string{}
			for _, f := range fd.Type.Params.List {
				for _, n := range f.Names {
					paramType[n.Name] = comp.src(f.Type)
				}
			}
			defs := map[string][]ast.Expr{} // ident -> right-hand sides assigned to it anywhere in the function
			ast.Inspect(fd.Body, func(n ast.Node) bool {
				switch n := n.(type) {
				case *ast.AssignStmt:
					if len(n.Lhs) == 2 && len(n.Rhs) == 1 {
						if id, ok := n.Lhs[0].(*ast.Ident); ok {
							defs[id.Name] = append(defs[id.Name], n.Rhs[0])
						}
					}
					if len(n.Lhs) == len(n.Rhs) {
						for i, l := range n.Lhs {
							if id, ok := l.(*ast.Ident); ok {
								defs[id.Name] = append(defs[id.Name], n.Rhs[i])
							}
						}
					}
				case *ast.ValueSpec:
					for i, id := range n.Names {
						if i < len(n.Values) {
							defs[id.Name] = append(defs[id.Name], n.Values[i])
						} else if n.Type != nil {
							paramType[id.Name] = comp.src(n.Type)
						}
					}
				}
				return true
			})
			var stack []ast.Node
			ast.Inspect(fd.Body, func(n ast.Node) bool {
				if n == nil {
					stack = stack[:len(stack)-1]
					return true
				}
				stack = append(stack, n)
				call, ok := n.(*ast.CallExpr)
				if !ok || len(call.Args) != 1 || !immTargets[comp.src(call.Fun)] {
					return true
				}
				arg := call.Args[0]
				for {
					if pe, ok := arg.(*ast.ParenExpr); ok {
						arg = pe.X
						continue
					}
					break
				}
				xs := comp.src(arg)
				m := encImm{fn: fnName, expr: comp.src(call), target: comp.src(call.Fun), pos: comp.pos(call), guard: "none"}
				set := func(g, d string) { m.guard, m.detail = g, d }
				isTableCall := func(e ast.Expr) (string, bool) {
					c, ok := e.(*ast.CallExpr)
					if !ok {
						return "", false
					}
					f := comp.src(c.Fun)
					name := f[strings.LastIndex(f, ".")+1:]
					return name, guardedFuncs[name]
				}
				var classify func(e ast.Expr, depth int) bool
				classify = func(e ast.Expr, depth int) bool {
					es := comp.src(e)
					switch x := e.(type) {
					case *ast.BasicLit:
						set("const", es)
						return true
					case *ast.SelectorExpr:
						if es == "runtime.NoVariadicArgs" || es == "math.MaxUint32" {
							set("const", es)
							return true
						}
					case *ast.CallExpr:
						f := comp.src(x.Fun)
						if f == "kindToType" || f == "flattenIntegerKind" || f == "encodeRenderContext" {
							set("enum", f)
							return true
						}
						if name, ok := isTableCall(x); ok {
							set("table", name)
							return true
						}
						if strings.HasSuffix(f, ".nonLocalVarIndex") || strings.HasSuffix(f, ".predefVarIndex") {
							set("table", "index of a global variable (row Globals)")
							return true
						}
						if strings.HasSuffix(f, ".scopeLookup") || strings.HasSuffix(f, ".newRegister") {
							set("register", f)
							return true
						}
						if f == "len" && len(x.Args) == 1 {
							if t, ok := tableOf(x.Args[0], map[string]bool{"Text": true, "Types": true, "Functions": true, "NativeFunctions": true, "FieldIndexes": true}, map[string]bool{"Int": true, "Float": true, "String": true, "General": true}); ok {
								set("table", "len("+t+"), guarded where it is appended to")
								return true
							}
						}
						if immTargets[f] && len(x.Args) == 1 { // uint8(v >> 8) inside int8(…)
							return classify(x.Args[0], depth)
						}
					case *ast.IndexExpr:
						if id, ok := x.X.(*ast.Ident); ok && paramType[id.Name] == "runtime.StackShift" {
							set("register", "a count of registers ("+es+")")
							return true
						}
					case *ast.BinaryExpr:
						if x.Op == token.SHL || x.Op == token.SHR || x.Op == token.OR || x.Op == token.AND {
							return classify(x.X, depth)
						}
					case *ast.Ident:
						if x.Name == "true" || x.Name == "false" || x.Name == "intRegister" || x.Name == "floatRegister" || x.Name == "stringRegister" || x.Name == "generalRegister" {
							set("enum", es)
							return true
						}
						if t, ok := paramType[x.Name]; ok && immEnumTypes[t] {
							set("enum", t)
							return true
						}
						if depth < 3 {
							rs := defs[x.Name]
							if len(rs) > 0 {
								all := true
								var g, dd string
								for _, r := range rs {
									save := m
									if !classify(r, depth+1) {
										all = false
									}
									g, dd = m.guard, m.detail
									m = save
									if !all {
										break
									}
								}
								if all {
									set(g, dd)
									return true
								}
							}
						}
					}
					return false
				}
				_, isIndex := stack[len(stack)-2].(*ast.IndexExpr)
				switch {
				case isIndex && len(stack) >= 2:
					set("read", "reads an operand back as a table index")
				case codec:
					set("codec", fd.Name.Name)
				case classify(arg, 0):
				}
				// the variable index of GetVar/SetVar is handed over by the emitter from the var store
				if m.guard == "none" && (fd.Name.Name == "emitGetVar" || fd.Name.Name == "emitGetVarAddr" || fd.Name.Name == "emitSetVar") && strings.HasPrefix(xs, "v") {
					set("table", "index of a global or closure variable (rows Globals, ClosureVars)")
				}
				// a preceding limit check / an enclosing range test / the loop that bounds a count
				if m.guard == "none" {
					// ancestors: blocks with earlier statements, ifs, loops
					for i := len(stack) - 2; i >= 0 && m.guard == "none"; i-- {
						switch a := stack[i].(type) {
						case *ast.IfStmt:
							cond := comp.src(a.Cond)
							inBody := i+1 < len(stack) && stack[i+1] == ast.Node(a.Body)
							inElse := i+1 < len(stack) && a.Else != nil && stack[i+1] == a.Else
							if inBody && (strings.Contains(cond, xs+" <= 127") || (strings.Contains(cond, "-128 <= "+xs) && strings.Contains(cond, xs+" <= 127"))) {
								set("range", cond)
							}
							if inElse && cond == xs+" > 127" {
								set("range", "else of "+cond)
							}
						case *ast.BlockStmt, *ast.CaseClause:
							var child ast.Node
							if i+1 < len(stack) {
								child = stack[i+1]
							}
							var list []ast.Stmt
							if bs, ok := a.(*ast.BlockStmt); ok {
								list = bs.List
							} else {
								list = a.(*ast.CaseClause).Body
							}
							for k, s := range list {
								if ast.Node(s) == child {
									// earlier siblings: limit check on the same quantity, `k := x <= 127`
									for pi, prev := range list[:k] {
										if is, ok := prev.(*ast.IfStmt); ok && len(is.Body.List) > 0 {
											if _, ok := limitPanic(is.Body.List[0]); ok && (strings.Contains(comp.src(is.Cond), xs) || rangedLen(comp, stack, xs, comp.src(is.Cond))) {
												set("limitCheck", comp.src(is.Cond))
											}
											// `len(X) - 1` after `if len(X) == C { panic(limit) }; X = append(X, one value)`:
											// the index of the entry just appended (one append, nothing else in between)
											if _, ok := limitPanic(is.Body.List[0]); ok && pi+2 == k {
												if X, ok := lenMinusOne(comp, arg); ok && strings.HasPrefix(comp.src(is.Cond), "len("+X+") == ") {
													if as, ok := list[pi+1].(*ast.AssignStmt); ok && len(as.Lhs) == 1 && len(as.Rhs) == 1 && comp.src(as.Lhs[0]) == X {
														if c, ok := isCall(as.Rhs[0], "append"); ok && len(c.Args) == 2 && !c.Ellipsis.IsValid() && comp.src(c.Args[0]) == X {
															set("limitCheck", comp.src(is.Cond)+" before the one append of which this is the index")
														}
													}
												}
											}
										}
										if as, ok := prev.(*ast.AssignStmt); ok && len(as.Rhs) == 1 && comp.src(as.Rhs[0]) == xs+" <= 127" {
											set("range", comp.src(as)+" (a register otherwise)")
										}
									}
									if m.guard != "none" {
										break
									}
									// a count: the loop that runs that many times follows (or precedes, for len(x) of a
									// slice filled by the loop)
									for si, sib := range list[k+1:] {
										if b := loopBody(sib); b != nil && (loopMentions(comp, sib, xs) || si == 0) {
											m.guard, m.held, m.detail = "heldRegs", heldRegisters(comp, b), "count of the loop at "+comp.pos(sib)
											break
										}
									}
									if m.guard == "none" && strings.HasPrefix(xs, "len(") {
										for j := k - 1; j >= 0 && m.guard == "none"; j-- {
											if b := loopBody(list[j]); b != nil {
												m.guard, m.held, m.detail = "heldRegs", heldRegisters(comp, b), "length of the slice filled by the loop at "+comp.pos(list[j])
											}
										}
									}
								}
							}
						case *ast.ForStmt, *ast.RangeStmt:
							// an index of the enclosing loop
							if r, ok := a.(*ast.RangeStmt); ok && loopVarIn(comp, a, xs) {
								if t, ok := tableOf(r.X, map[string]bool{"Types": true, "Functions": true, "NativeFunctions": true, "FieldIndexes": true, "Text": true}, map[string]bool{"Int": true, "Float": true, "String": true, "General": true}); ok {
									set("table", "index of an entry found in "+t)
									break
								}
								if rangedLenGuard(comp, fd, comp.src(r.X)) != "" {
									set("limitCheck", rangedLenGuard(comp, fd, comp.src(r.X)))
									break
								}
							}
							if loopVarIn(comp, a, xs) {
								m.guard, m.held, m.detail = "heldRegs", heldRegisters(comp, loopBody(a.(ast.Stmt))), "index of the loop at "+comp.pos(a)
							}
						}
					}
				}
				out = append(out, m)
				return true
			})
		}
	}
	sort.SliceStable(out, func(i, j int) bool { return out[i].fn+out[i].expr < out[j].fn+out[j].expr })
	// one entry per (function, expression, guard)
	var uniq []encImm
	for _, m := range out {
		if n := len(uniq); n > 0 && uniq[n-1].fn == m.fn && uniq[n-1].expr == m.expr && uniq[n-1].guard == m.guard && uniq[n-1].held == m.held {
			continue
		}
		uniq = append(uniq, m)
	}
	return uniq, nil
}

// lenMinusOne: e is `len(X) - 1`; returns the text of X.
func lenMinusOne(p *encPkg, e ast.Expr) (string, bool) {
	be, ok := e.(*ast.BinaryExpr)
	if !ok || be.Op != token.SUB || p.src(be.Y) != "1" {
		return "", false
	}
	l, ok := isCall(be.X, "len")
	if !ok || len(l.Args) != 1 {
		return "", false
	}
	return p.src(l.Args[0]), true
}

// rangedLen: xs is the key of an enclosing `for xs := range X` and cond bounds len(X).
func rangedLen(p *encPkg, stack []ast.Node, xs, cond string) bool {
	for _, n := range stack {
		if r, ok := n.(*ast.RangeStmt); ok && r.Key != nil && p.src(r.Key) == xs && strings.Contains(cond, "len("+p.src(r.X)+")") {
			return true
		}
	}
	return false
}

func loopMentions(p *encPkg, loop ast.Stmt, xs string) bool {
	switch l := loop.(type) {
	case *ast.RangeStmt:
		return p.src(l.X) == xs
	case *ast.ForStmt:
		return l.Cond != nil && strings.Contains(p.src(l.Cond), xs) || l.Init != nil && strings.Contains(p.src(l.Init), xs)
	}
	return false
}

// loopVarIn: the expression is the loop variable of the loop, possibly minus a loop-invariant.
func loopVarIn(p *encPkg, loop ast.Node, xs string) bool {
	var v string
	switch l := loop.(type) {
	case *ast.RangeStmt:
		if l.Key != nil {
			v = p.src(l.Key)
		}
	case *ast.ForStmt:
		if as, ok := l.Init.(*ast.AssignStmt); ok && len(as.Lhs) == 1 {
			v = p.src(as.Lhs[0])
		}
	}
	return v != "" && (xs == v || strings.HasPrefix(xs, v+"-") || strings.HasPrefix(xs, v+" - "))
}

func immediatesLean(imms []encImm) string {
	var sb strings.Builder
	sb.WriteString("/-! ### immediates: every narrowing conversion to an operand-sized integer in emitter*.go / builder*.go\n\n`guard`: const | codec | enum | table | limitCheck | range | register | heldRegs | none (see gen_encoding_imm.go).\n`held`: for heldRegs, the registers every iteration of the bounding loop keeps allocated. -/\n")
	sb.WriteString("structure Immediate where\n  site : String\n  target : String\n  guard : String\n  held : Nat\n  detail : String\n  deriving Repr, DecidableEq\n\ndef immediates : List Immediate := [\n")
	for i, m := range imms {
		sep := ","
		if i == len(imms)-1 {
			sep = ""
		}
		fmt.Fprintf(&sb, "  { site := %q, target := %q, guard := %q, held := %d, detail := %q }%s -- %s\n", m.fn+": "+m.expr, m.target, m.guard, m.held, m.detail, sep, m.pos)
	}
	sb.WriteString("]\n\n")
	return sb.String()
}

// rangedLenGuard: a limit check `len(X) > C` / `>=` at the top level of the function.
func rangedLenGuard(p *encPkg, fd *ast.FuncDecl, x string) string {
	for _, s := range fd.Body.List {
		if is, ok := s.(*ast.IfStmt); ok && len(is.Body.List) > 0 {
			if _, ok := limitPanic(is.Body.List[0]); ok && strings.Contains(p.src(is.Cond), "len("+x+")") {
				return p.src(is.Cond)
			}
		}
	}
	return ""
}
