package main

// Generator "GoCopy" (property C14): which stack shift goes with which register file when a
// goroutine is started.
//
//   goCopies    the `copy(nvm.regs.X, vm.regs.Y[vm.fp[i]+Addr(off.F) : …vm.fp[j]…vm.st[k]…])`
//               statements of (*VM).startGoroutine: (X, Y, i, F, j, k)
//   callShifts  the `vm.fp[i] += Addr(off.F)` statements of the OpCallFunc clause of (*VM).run:
//               the calling convention (which operand of the shift instruction moves which frame
//               pointer)
//   fileFp      for every register file, the frame-pointer indices it is addressed with in
//               registers.go (`vm.regs.X[vm.fp[i]+Addr(r)]`)
//   recvStores  the stores of a received value and of the ok flag (OpReceive, OpSelect, the channel
//               case of OpRange) with the conditions they are under
//   recvStoreWrappers  the plain functions of registers.go applied to a received value before it
//               is stored (`vm.setFromReflectValue(b, copyOfElement(u))`): name, signature + body
//
// Anything else in the place of these statements is "shape not recognised".

import (
	"fmt"
	"go/ast"
	"go/parser"
	"go/token"
	"path/filepath"
	"regexp"
	"sort"
	"strings"
)

func init() {
	generators = append(generators, generator{name: "GoCopy", run: genGoCopy})
}

func genGoCopy(repo string) (string, error) {
	fset := token.NewFileSet()
	dir := filepath.Join(repo, "internal", "runtime")
	parse := func(name string) (*ast.File, error) {
		return parser.ParseFile(fset, filepath.Join(dir, name), nil, 0)
	}
	vmf, err := parse("vm.go")
	if err != nil {
		return "", err
	}
	runf, err := parse("run.go")
	if err != nil {
		return "", err
	}
	regf, err := parse("registers.go")
	if err != nil {
		return "", err
	}
	fn := func(f *ast.File, name string) *ast.FuncDecl {
		for _, d := range f.Decls {
			if fd, ok := d.(*ast.FuncDecl); ok && fd.Name.Name == name && fd.Recv != nil && fd.Body != nil {
				return fd
			}
		}
		return nil
	}
	sg := fn(vmf, "startGoroutine")
	run := fn(runf, "run")
	if sg == nil || run == nil {
		return "", fmt.Errorf("shape not recognised: (*VM).startGoroutine or (*VM).run not found")
	}
	copyRe := regexp.MustCompile(`^copy\(nvm\.regs\.(\w+), vm\.regs\.(\w+)\[vm\.fp\[(\d)\]\+Addr\(off\.(\w+)\):(.*)\]\)$`)
	idxRe := regexp.MustCompile(`vm\.(fp|st)\[(\d)\]`)
	type cp struct {
		dst, src, fp, field, hiFp, hiSt string
	}
	var copies []cp
	var bad error
	ast.Inspect(sg.Body, func(n ast.Node) bool {
		es, ok := n.(*ast.ExprStmt)
		if !ok {
			return true
		}
		t := swText(fset, es)
		if !strings.HasPrefix(t, "copy(") {
			return true
		}
		m := copyRe.FindStringSubmatch(t)
		if m == nil {
			bad = fmt.Errorf("shape not recognised: startGoroutine: %s", t)
			return false
		}
		c := cp{dst: m[1], src: m[2], fp: m[3], field: m[4], hiFp: "-", hiSt: "-"}
		for _, x := range idxRe.FindAllStringSubmatch(m[5], -1) {
			if x[1] == "fp" {
				if c.hiFp != "-" && c.hiFp != x[2] {
					bad = fmt.Errorf("shape not recognised: startGoroutine: two frame pointers in the bound of %s", t)
				}
				c.hiFp = x[2]
			} else {
				c.hiSt = x[2]
			}
		}
		copies = append(copies, c)
		return true
	})
	if bad != nil {
		return "", bad
	}
	if len(copies) == 0 {
		return "", fmt.Errorf("shape not recognised: startGoroutine has no copy(nvm.regs.…, vm.regs.…[…]) statement")
	}
	// OpCallFunc
	shiftRe := regexp.MustCompile(`^vm\.fp\[(\d)\] \+= Addr\(off\.(\w+)\)$`)
	var shifts [][2]string
	found := false
	ast.Inspect(run.Body, func(n ast.Node) bool {
		cc, ok := n.(*ast.CaseClause)
		if !ok || found {
			return true
		}
		for _, e := range cc.List {
			if swText(fset, e) == "OpCallFunc" {
				found = true
				for _, st := range cc.Body {
					if m := shiftRe.FindStringSubmatch(swText(fset, st)); m != nil {
						shifts = append(shifts, [2]string{m[1], m[2]})
					}
				}
			}
		}
		return true
	})
	if len(shifts) == 0 {
		return "", fmt.Errorf("shape not recognised: the OpCallFunc clause of run has no `vm.fp[i] += Addr(off.F)`")
	}
	// register files and their frame pointers
	accRe := regexp.MustCompile(`vm\.regs\.(\w+)\[vm\.fp\[(\d)\]\+`)
	pairs := map[string]bool{}
	for _, m := range accRe.FindAllStringSubmatch(swText(fset, regf), -1) {
		pairs[m[1]+" "+m[2]] = true
	}
	var fileFp []string
	for p := range pairs {
		fileFp = append(fileFp, p)
	}
	sort.Strings(fileFp)
	if len(fileFp) == 0 {
		return "", fmt.Errorf("shape not recognised: registers.go has no vm.regs.X[vm.fp[i]+…] access")
	}

	// where a received value and its ok flag are stored: the OpReceive, OpSelect clauses and the
	// channel case of OpRange
	type rs struct{ op, ctx, text string }
	var recvStores []rs
	loader := &swLoader{fset: fset}
	for _, op := range []string{"OpReceive", "OpSelect", "OpRange"} {
		var clause *ast.CaseClause
		ast.Inspect(run.Body, func(n ast.Node) bool {
			if cc, ok := n.(*ast.CaseClause); ok && clause == nil {
				for _, e := range cc.List {
					if swText(fset, e) == op {
						clause = cc
					}
				}
			}
			return clause == nil
		})
		if clause == nil {
			return "", fmt.Errorf("shape not recognised: run has no `case %s:` clause", op)
		}
		var root ast.Node = clause
		if op == "OpRange" { // only the `case reflect.Chan:` clause inside
			root = nil
			ast.Inspect(clause, func(n ast.Node) bool {
				if cc, ok := n.(*ast.CaseClause); ok && len(cc.List) == 1 && swText(fset, cc.List[0]) == "reflect.Chan" {
					root = cc
				}
				return root == nil
			})
			if root == nil {
				return "", fmt.Errorf("shape not recognised: OpRange has no `case reflect.Chan:` clause")
			}
		}
		var stack []ast.Node
		n0 := len(recvStores)
		ast.Inspect(root, func(n ast.Node) bool {
			if n == nil {
				stack = stack[:len(stack)-1]
				return true
			}
			stack = append(stack, n)
			var text string
			switch x := n.(type) {
			case *ast.ExprStmt:
				if t := swText(fset, x); strings.HasPrefix(t, "vm.setFromReflectValue(") || strings.HasPrefix(t, "vm.setBool(") {
					text = t
				}
			case *ast.AssignStmt:
				for _, l := range x.Lhs {
					if swText(fset, l) == "vm.ok" {
						text = swText(fset, x)
					}
				}
			}
			if text != "" {
				recvStores = append(recvStores, rs{op, swCondCtx(loader, stack), text})
			}
			return true
		})
		if len(recvStores) == n0 {
			return "", fmt.Errorf("shape not recognised: %s stores no received value", op)
		}
	}

	// a store that does not store the received value itself but the result of a function applied
	// to it: the function (a plain function of registers.go) and the text of its body
	type wr struct{ name, body string }
	var wrappers []wr
	wrapRe := regexp.MustCompile(`^vm\.setFromReflectValue\(\w+, (\w+)\((\w+)\)\)$`)
	plainRe := regexp.MustCompile(`^vm\.setFromReflectValue\(\w+, \w+\)$`)
	for _, r := range recvStores {
		if !strings.HasPrefix(r.text, "vm.setFromReflectValue(") || plainRe.MatchString(r.text) {
			continue
		}
		m := wrapRe.FindStringSubmatch(r.text)
		if m == nil {
			return "", fmt.Errorf("shape not recognised: %s stores %s", r.op, r.text)
		}
		seen := false
		for _, w := range wrappers {
			seen = seen || w.name == m[1]
		}
		if seen {
			continue
		}
		var decl *ast.FuncDecl
		for _, d := range regf.Decls {
			if fd, ok := d.(*ast.FuncDecl); ok && fd.Name.Name == m[1] && fd.Recv == nil && fd.Body != nil {
				decl = fd
			}
		}
		if decl == nil {
			return "", fmt.Errorf("shape not recognised: %s stores %s: function %s not found in registers.go", r.op, r.text, m[1])
		}
		wrappers = append(wrappers, wr{m[1], strings.Join(strings.Fields(swText(fset, decl.Type)+" "+swText(fset, decl.Body)), " ")})
	}

	var b strings.Builder
	b.WriteString("namespace ScriggoV.Gen.GoCopy\n\n")
	b.WriteString("/-- a `copy(nvm.regs.dst, vm.regs.src[vm.fp[fp]+Addr(off.field) : … vm.fp[hiFp] … vm.st[hiSt] …])` of startGoroutine -/\nstructure Copy where\n  dst : String\n  src : String\n  fp : Nat\n  field : String\n  hiFp : String\n  hiSt : String\nderiving DecidableEq, Repr\n\n")
	b.WriteString("def goCopies : List Copy := [")
	for i, c := range copies {
		if i > 0 {
			b.WriteString(",")
		}
		fmt.Fprintf(&b, "\n  ⟨%s, %s, %s, %s, %s, %s⟩", swLeanStr(c.dst), swLeanStr(c.src), c.fp, swLeanStr(c.field), swLeanStr(c.hiFp), swLeanStr(c.hiSt))
	}
	b.WriteString("]\n\n/-- OpCallFunc: frame pointer `i` is shifted by operand `field` of the instruction that follows the call -/\ndef callShifts : List (Nat × String) := [")
	for i, s := range shifts {
		if i > 0 {
			b.WriteString(", ")
		}
		fmt.Fprintf(&b, "(%s, %s)", s[0], swLeanStr(s[1]))
	}
	b.WriteString("]\n\n/-- registers.go: register file and the frame pointer it is addressed with -/\ndef fileFp : List (String × Nat) := [")
	for i, p := range fileFp {
		if i > 0 {
			b.WriteString(", ")
		}
		f := strings.Fields(p)
		fmt.Fprintf(&b, "(%s, %s)", swLeanStr(f[0]), f[1])
	}
	b.WriteString("]\n\n/-- where a received value and the ok flag are stored (OpReceive, OpSelect, the channel case of OpRange): instruction, the if-conditions the statement is under inside the clause, the statement -/\ndef recvStores : List (String × String × String) := [")
	for i, r := range recvStores {
		if i > 0 {
			b.WriteString(",")
		}
		fmt.Fprintf(&b, "\n  (%s, %s, %s)", swLeanStr(r.op), swLeanStr(r.ctx), swLeanStr(r.text))
	}
	b.WriteString("]\n\n/-- the functions applied to a received value before it is stored (name, signature and body as written) -/\ndef recvStoreWrappers : List (String × String) := [")
	for i, w := range wrappers {
		if i > 0 {
			b.WriteString(",")
		}
		fmt.Fprintf(&b, "\n  (%s, %s)", swLeanStr(w.name), swLeanStr(w.body))
	}
	b.WriteString("]\n\nend ScriggoV.Gen.GoCopy\n")
	return b.String(), nil
}
