package main

// Generator "CommaOk" (property C01): where the value result of a comma-ok / may-fail instruction
// goes, on the failing path too.
//
//	internal/runtime/run.go        case OpAssert:   the `if c != 0 { switch t.Kind() { … } }` tail
//	                               case OpMapIndex: elem := zero; if vm.ok { elem.Set(index) }; set(c, elem)
//	                               case OpReceive:  if c != 0 { vm.setFromReflectValue(c, v) }
//	internal/runtime/registers.go  setFromReflectValue: reflect.Kind → register bank written
//	internal/compiler/emitter_util.go  kindToType: reflect.Kind → register bank the emitter allocates
//
// The statements that decide what reaches the destination register are translated into a list of
// `Stmt` (declare a zero local / assign it / set a register, each possibly under `if ok`); the
// rest of the case bodies is recognised literally (anything else is "shape not recognised").
// Props/C01.lean proves over these lists that on the failing path the destination register of the
// bank the EMITTER reads holds the zero value whatever it held before (`assert_fail_zero`,
// `mapIndex_absent_zero`, `receive_closed_zero`), and the value on the successful path.

import (
	"fmt"
	"go/ast"
	"go/parser"
	"go/token"
	"path/filepath"
	"strings"
)

func init() {
	generators = append(generators, generator{name: "CommaOk", run: genCommaOk})
}

var coKinds = []string{"Invalid", "Bool", "Int", "Int8", "Int16", "Int32", "Int64", "Uint", "Uint8", "Uint16", "Uint32", "Uint64",
	"Uintptr", "Float32", "Float64", "Complex64", "Complex128", "Array", "Chan", "Func", "Interface", "Map", "Pointer", "Slice", "String",
	"Struct", "UnsafePointer"}

func coLeanKind(goName string) (string, bool) {
	name := strings.TrimPrefix(goName, "reflect.")
	if name == "Ptr" {
		name = "Pointer"
	}
	for _, k := range coKinds {
		if k == name {
			return "." + strings.ToLower(k[:1]) + k[1:], true
		}
	}
	return "", false
}

var coSetters = map[string]string{"setInt": ".int", "setBool": ".int", "setFloat": ".float", "setString": ".string", "setGeneral": ".general"}

// coCfg: how one case body names things
type coCfg struct {
	fset   *token.FileSet
	ok     string            // the success flag: "ok" / "vm.ok"
	vals   map[string]string // expressions that denote the value on the successful path → Lean Src
	zeros  map[string]bool   // right-hand sides that declare a zero-valued local
	skip   map[string]bool   // statements without influence on the destination, by exact text
	dstReg string            // the destination operand: "c"
}

func (c *coCfg) text(n ast.Node) string { return swText(c.fset, n) }

func (c *coCfg) src(e ast.Expr, locals map[string]bool) (string, error) {
	t := c.text(e)
	if s, ok := c.vals[t]; ok {
		return s, nil
	}
	if id, ok := e.(*ast.Ident); ok && locals[id.Name] {
		return fmt.Sprintf("(.loc %q)", id.Name), nil
	}
	return "", fmt.Errorf("shape not recognised: value expression %s", t)
}

// stmts translates a statement list; `guard` says that it stands under `if <ok>`
func (c *coCfg) stmts(list []ast.Stmt, guard bool, locals map[string]bool, out *[]string) error {
	g := "false"
	if guard {
		g = "true"
	}
	emit := func(act string) { *out = append(*out, fmt.Sprintf("⟨%s, %s⟩", g, act)) }
	for _, s := range list {
		t := c.text(s)
		if c.skip[t] {
			continue
		}
		switch s := s.(type) {
		case *ast.DeclStmt:
			// var n int64
			gd, ok := s.Decl.(*ast.GenDecl)
			if !ok || gd.Tok != token.VAR || len(gd.Specs) != 1 {
				return fmt.Errorf("shape not recognised: declaration %s", t)
			}
			vs := gd.Specs[0].(*ast.ValueSpec)
			if len(vs.Names) != 1 || len(vs.Values) != 0 {
				return fmt.Errorf("shape not recognised: declaration %s", t)
			}
			locals[vs.Names[0].Name] = true
			emit(fmt.Sprintf(".decl %q", vs.Names[0].Name))
		case *ast.AssignStmt:
			if len(s.Lhs) != 1 || len(s.Rhs) != 1 {
				return fmt.Errorf("shape not recognised: assignment %s", t)
			}
			id, ok := s.Lhs[0].(*ast.Ident)
			if !ok {
				return fmt.Errorf("shape not recognised: assignment %s", t)
			}
			if s.Tok == token.DEFINE {
				if !c.zeros[c.text(s.Rhs[0])] {
					return fmt.Errorf("shape not recognised: local %s is not declared with a zero value: %s", id.Name, t)
				}
				locals[id.Name] = true
				emit(fmt.Sprintf(".decl %q", id.Name))
				continue
			}
			if s.Tok != token.ASSIGN || !locals[id.Name] {
				return fmt.Errorf("shape not recognised: assignment %s", t)
			}
			v, err := c.src(s.Rhs[0], locals)
			if err != nil {
				return err
			}
			emit(fmt.Sprintf(".assign %q %s", id.Name, v))
		case *ast.ExprStmt:
			call, ok := s.X.(*ast.CallExpr)
			if !ok {
				return fmt.Errorf("shape not recognised: statement %s", t)
			}
			fn := c.text(call.Fun)
			switch {
			case strings.HasPrefix(fn, "vm.set") && len(call.Args) == 2:
				if c.text(call.Args[0]) != c.dstReg {
					return fmt.Errorf("shape not recognised: %s does not write operand %s", t, c.dstReg)
				}
				v, err := c.src(call.Args[1], locals)
				if err != nil {
					return err
				}
				name := strings.TrimPrefix(fn, "vm.")
				if name == "setFromReflectValue" {
					emit(fmt.Sprintf(".setByKind %s", v))
				} else if b, ok := coSetters[name]; ok {
					emit(fmt.Sprintf(".set %s %s", b, v))
				} else {
					return fmt.Errorf("shape not recognised: setter %s", fn)
				}
			case strings.HasSuffix(fn, ".Set") && len(call.Args) == 1:
				// rv.Set(v)
				recv := strings.TrimSuffix(fn, ".Set")
				if !locals[recv] {
					return fmt.Errorf("shape not recognised: %s", t)
				}
				v, err := c.src(call.Args[0], locals)
				if err != nil {
					return err
				}
				emit(fmt.Sprintf(".assign %q %s", recv, v))
			default:
				return fmt.Errorf("shape not recognised: statement %s", t)
			}
		case *ast.IfStmt:
			cond := c.text(s.Cond)
			switch {
			case s.Init == nil && s.Else == nil && cond == c.ok:
				if err := c.stmts(s.Body.List, true, locals, out); err != nil {
					return err
				}
			case s.Init == nil && s.Else == nil && cond == c.dstReg+" != 0":
				// the destination operand is present (the theorems are about c ≠ 0)
				if err := c.stmts(s.Body.List, guard, locals, out); err != nil {
					return err
				}
			default:
				return fmt.Errorf("shape not recognised: if statement %s", t)
			}
		default:
			return fmt.Errorf("shape not recognised: statement %s", t)
		}
	}
	return nil
}

func coList(items []string) string {
	if len(items) == 0 {
		return "[]"
	}
	return "[" + strings.Join(items, ", ") + "]"
}

// coKindSwitch reads a `switch <tag> { case reflect.X, …: … }` whose clause bodies are classified by f
func coKindSwitch(fset *token.FileSet, sw *ast.SwitchStmt, f func(body []ast.Stmt) (string, error)) (clauses []string, deflt string, err error) {
	seen := map[string]bool{}
	for _, cl := range sw.Body.List {
		cc := cl.(*ast.CaseClause)
		val, err := f(cc.Body)
		if err != nil {
			return nil, "", err
		}
		if cc.List == nil {
			deflt = val
			continue
		}
		var ks []string
		for _, x := range cc.List {
			k, ok := coLeanKind(swText(fset, x))
			if !ok {
				return nil, "", fmt.Errorf("shape not recognised: case %s is not a reflect.Kind", swText(fset, x))
			}
			if seen[k] {
				return nil, "", fmt.Errorf("shape not recognised: kind %s in two clauses", k)
			}
			seen[k] = true
			ks = append(ks, k)
		}
		clauses = append(clauses, fmt.Sprintf("(%s, %s)", coList(ks), val))
	}
	if deflt == "" {
		return nil, "", fmt.Errorf("shape not recognised: kind switch without default clause")
	}
	return clauses, deflt, nil
}

// coBankOfReturn: a clause body of kindToType / setFromReflectValue → the register bank
func coBankByReturn(fset *token.FileSet, body []ast.Stmt) (string, error) {
	if len(body) == 0 {
		return "", fmt.Errorf("shape not recognised: empty clause")
	}
	r, ok := body[len(body)-1].(*ast.ReturnStmt)
	if !ok || len(r.Results) != 1 {
		return "", fmt.Errorf("shape not recognised: clause does not end in `return <registerType>`")
	}
	switch swText(fset, r.Results[0]) {
	case "intRegister":
		return ".int", nil
	case "floatRegister":
		return ".float", nil
	case "stringRegister":
		return ".string", nil
	case "generalRegister":
		return ".general", nil
	}
	return "", fmt.Errorf("shape not recognised: register type %s", swText(fset, r.Results[0]))
}

func genCommaOk(repo string) (string, error) {
	fset := token.NewFileSet()
	parse := func(parts ...string) (*ast.File, error) {
		return parser.ParseFile(fset, filepath.Join(append([]string{repo}, parts...)...), nil, 0)
	}
	runF, err := parse("internal", "runtime", "run.go")
	if err != nil {
		return "", err
	}
	regF, err := parse("internal", "runtime", "registers.go")
	if err != nil {
		return "", err
	}
	emF, err := parse("internal", "compiler", "emitter_util.go")
	if err != nil {
		return "", err
	}
	find := func(f *ast.File, name string) *ast.FuncDecl {
		for _, d := range f.Decls {
			if fd, ok := d.(*ast.FuncDecl); ok && fd.Name.Name == name && fd.Body != nil {
				return fd
			}
		}
		return nil
	}
	bad := func(format string, a ...any) (string, error) {
		return "", fmt.Errorf("shape not recognised: "+format, a...)
	}
	cases, err := vmCases(fset, runF)
	if err != nil {
		return "", err
	}

	// ---- kindToType (emitter) and setFromReflectValue (VM): reflect.Kind → bank
	bankTable := func(fd *ast.FuncDecl, tag string, checkSetter bool) ([]string, string, error) {
		if fd == nil || len(fd.Body.List) != 1 {
			return nil, "", fmt.Errorf("shape not recognised: %s is not a single switch", tag)
		}
		sw, ok := fd.Body.List[0].(*ast.SwitchStmt)
		if !ok || swText(fset, sw.Tag) != tag {
			return nil, "", fmt.Errorf("shape not recognised: switch tag is not %s", tag)
		}
		return coKindSwitch(fset, sw, func(body []ast.Stmt) (string, error) {
			b, err := coBankByReturn(fset, body)
			if err != nil {
				return "", err
			}
			if checkSetter {
				// every statement before the return is a vm.setX(r, …) of the bank that is returned,
				// or the construction of the callable for a func value
				wrote := false
				for _, s := range body[:len(body)-1] {
					t := swText(fset, s)
					if es, ok := s.(*ast.ExprStmt); ok {
						if call, ok := es.X.(*ast.CallExpr); ok && len(call.Args) == 2 && swText(fset, call.Args[0]) == "r" {
							name := strings.TrimPrefix(swText(fset, call.Fun), "vm.")
							if coSetters[name] != b {
								return "", fmt.Errorf("shape not recognised: setFromReflectValue: %s in a clause returning %s", t, b)
							}
							wrote = true
							continue
						}
					}
					if strings.HasPrefix(t, "c := &callable{") {
						continue
					}
					return "", fmt.Errorf("shape not recognised: setFromReflectValue: statement %s", t)
				}
				if !wrote {
					return "", fmt.Errorf("shape not recognised: setFromReflectValue: a clause writes no register")
				}
			}
			return b, nil
		})
	}
	emCl, emDef, err := bankTable(find(emF, "kindToType"), "k", false)
	if err != nil {
		return "", err
	}
	setCl, setDef, err := bankTable(find(regF, "setFromReflectValue"), "v.Kind()", true)
	if err != nil {
		return "", err
	}

	// ---- OpAssert: the tail `if c != 0 { switch t.Kind() { … } }`
	as := cases["OpAssert"]
	if as == nil {
		return bad("no case OpAssert")
	}
	var asSwitch *ast.SwitchStmt
	for _, s := range as.Body {
		if is, ok := s.(*ast.IfStmt); ok && is.Init == nil && is.Else == nil && swText(fset, is.Cond) == "c != 0" {
			if len(is.Body.List) == 1 {
				if sw, ok := is.Body.List[0].(*ast.SwitchStmt); ok && swText(fset, sw.Tag) == "t.Kind()" {
					asSwitch = sw
				}
			}
		}
	}
	if asSwitch == nil {
		return bad("OpAssert: no `if c != 0 { switch t.Kind() { … } }`")
	}
	// the flag and the value the tail uses are the ones the head computes
	head := swText(fset, &ast.BlockStmt{List: as.Body})
	for _, need := range []string{"v := vm.general(a)", "var ok bool", "vm.ok = ok"} {
		if !strings.Contains(head, need) {
			return bad("OpAssert: `%s` not found", need)
		}
	}
	acfg := &coCfg{fset: fset, ok: "ok", dstReg: "c",
		vals:  map[string]string{"v": ".v", "v.Int()": ".v", "int64(v.Uint())": ".v", "v.Float()": ".v", "v.String()": ".v", "v.Bool()": ".v"},
		zeros: map[string]bool{"reflect.New(t).Elem()": true, "reflect.Zero(t)": true},
		skip:  map[string]bool{"if w, ok := t.(ScriggoType); ok { t = w.GoType() }": true}}
	asCl, asDef, err := coKindSwitch(fset, asSwitch, func(body []ast.Stmt) (string, error) {
		var out []string
		if err := acfg.stmts(body, false, map[string]bool{}, &out); err != nil {
			return "", fmt.Errorf("OpAssert: %v", err)
		}
		return coList(out), nil
	})
	if err != nil {
		return "", err
	}

	// ---- OpMapIndex
	mi := cases["OpMapIndex"]
	if mi == nil {
		return bad("no case OpMapIndex")
	}
	mcfg := &coCfg{fset: fset, ok: "vm.ok", dstReg: "c",
		vals:  map[string]string{"index": ".v"},
		zeros: map[string]bool{"reflect.New(t.Elem()).Elem()": true, "reflect.Zero(t.Elem())": true},
		skip: map[string]bool{"m := vm.general(a)": true, "t := m.Type()": true, "k := reflect.New(t.Key()).Elem()": true,
			"vm.getIntoReflectValue(b, k, op < 0)": true, "index := m.MapIndex(k)": true, "vm.ok = index.IsValid()": true}}
	var miOut []string
	if err := mcfg.stmts(mi.Body, false, map[string]bool{}, &miOut); err != nil {
		return "", fmt.Errorf("OpMapIndex: %v", err)
	}
	if t := swText(fset, &ast.BlockStmt{List: mi.Body}); !strings.Contains(t, "index := m.MapIndex(k)") || !strings.Contains(t, "vm.ok = index.IsValid()") {
		return bad("OpMapIndex: the lookup `index := m.MapIndex(k); vm.ok = index.IsValid()` not found")
	}

	// ---- OpReceive: v is what reflect hands out (the zero value of the element type when the
	// channel is closed: the contract of Value.Recv / reflect.Select), in both branches
	rc := cases["OpReceive"]
	if rc == nil {
		return bad("no case OpReceive")
	}
	rcfg := &coCfg{fset: fset, ok: "vm.ok", dstReg: "c",
		vals:  map[string]string{"v": ".recv"},
		zeros: map[string]bool{},
		skip:  map[string]bool{"ch := vm.general(a)": true, "var v reflect.Value": true, "if b != 0 { vm.setBool(b, vm.ok) }": true}}
	var rcBody []ast.Stmt
	for _, s := range rc.Body {
		if is, ok := s.(*ast.IfStmt); ok && swText(fset, is.Cond) == "done == nil" {
			// every assignment to v inside is one of the two receive forms
			n, wrong := 0, ""
			ast.Inspect(is, func(x ast.Node) bool {
				if a, ok := x.(*ast.AssignStmt); ok {
					for _, l := range a.Lhs {
						if id, ok := l.(*ast.Ident); ok && id.Name == "v" {
							switch swText(fset, a) {
							case "v, vm.ok = ch.Recv()", "chosen, v, vm.ok = reflect.Select(vm.cases)":
								n++
							default:
								wrong = swText(fset, a)
							}
						}
					}
				}
				return true
			})
			if n != 2 || wrong != "" {
				return bad("OpReceive: the receive statement is not `v, vm.ok = ch.Recv()` / `chosen, v, vm.ok = reflect.Select(vm.cases)`: %s", wrong)
			}
			continue
		}
		rcBody = append(rcBody, s)
	}
	var rcOut []string
	if err := rcfg.stmts(rcBody, false, map[string]bool{}, &rcOut); err != nil {
		return "", fmt.Errorf("OpReceive: %v", err)
	}

	var b strings.Builder
	b.WriteString("/-! Where the value result of OpAssert / OpMapIndex / OpReceive goes (internal/runtime/run.go), the\n")
	b.WriteString("register bank `setFromReflectValue` writes per reflect.Kind (registers.go) and the bank the emitter\n")
	b.WriteString("allocates per kind (`kindToType`, emitter_util.go). Statements that cannot influence the destination\n")
	b.WriteString("register are recognised literally by the generator and left out. -/\n")
	b.WriteString("namespace ScriggoV.Gen.CommaOk\n\n")
	b.WriteString("/-- reflect.Kind -/\ninductive RKind\n  |")
	for i, k := range coKinds {
		if i > 0 {
			b.WriteString(" |")
		}
		b.WriteString(" " + strings.ToLower(k[:1]) + k[1:])
	}
	b.WriteString("\n  deriving DecidableEq, Repr, Inhabited\n\n")
	b.WriteString("/-- the four register banks -/\ninductive Bank\n  | int | float | string | general\n  deriving DecidableEq, Repr, Inhabited\n\n")
	b.WriteString("/-- a value: the zero value, the value `v` of the successful path, what reflect hands out for a\nreceive (the value, or the zero value when the channel is closed), a local of the case body -/\n")
	b.WriteString("inductive Src\n  | zero | v | recv | loc (x : String)\n  deriving DecidableEq, Repr, Inhabited\n\n")
	b.WriteString("inductive Act\n  | decl (x : String)              -- a local declared with the zero value\n  | assign (x : String) (s : Src)\n  | set (b : Bank) (s : Src)       -- vm.setInt / setFloat / setString / setGeneral (c, …)\n  | setByKind (s : Src)            -- vm.setFromReflectValue(c, …)\n  deriving DecidableEq, Repr, Inhabited\n\n")
	b.WriteString("/-- one statement; `guard`: it stands under `if ok` -/\nstructure Stmt where\n  guard : Bool\n  act : Act\n  deriving DecidableEq, Repr, Inhabited\n\n")
	fmt.Fprintf(&b, "/-- `kindToType` (emitter): the bank of a variable of a type of this kind -/\ndef emitterClauses : List (List RKind × Bank) := %s\ndef emitterDefault : Bank := %s\n\n", coList(emCl), emDef)
	fmt.Fprintf(&b, "/-- `setFromReflectValue`: the bank written for a value of this kind -/\ndef setterClauses : List (List RKind × Bank) := %s\ndef setterDefault : Bank := %s\n\n", coList(setCl), setDef)
	fmt.Fprintf(&b, "/-- OpAssert, `if c != 0 { switch t.Kind() { … } }` -/\ndef assertClauses : List (List RKind × List Stmt) :=\n  [%s]\ndef assertDefault : List Stmt := %s\n\n", strings.Join(asCl, ",\n   "), asDef)
	fmt.Fprintf(&b, "/-- OpMapIndex -/\ndef mapIndexBody : List Stmt := %s\n\n", coList(miOut))
	fmt.Fprintf(&b, "/-- OpReceive (operand c present) -/\ndef receiveBody : List Stmt := %s\n\n", coList(rcOut))
	b.WriteString("end ScriggoV.Gen.CommaOk\n")
	return b.String(), nil
}
