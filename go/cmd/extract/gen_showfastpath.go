package main

// Generator "ShowFastPath" (property C16, shared with C06 layer 3): regenerates
//
//	from ast/ast.go                          the Format* and Context* constants (iota blocks)
//	from internal/runtime/vm.go              const ReturnString
//	from internal/compiler/emitter_statements.go
//	    case *ast.Show:                      the three-way chain  macro fast path / render fast path / generic,
//	                                         the format argument handed to emitCallNode on both fast paths,
//	    canOptimizeShowMacro                 its boolean condition on (from, ctx, em.inURL) — `em.inURL` is the only
//	                                         other operand accepted, as a Bool atom: macroGuardU inURL from ctx,
//	                                         macroGuard = macroGuardU false; early exits whose condition
//	                                         does not mention from/to/ctx/em.inURL and that can only `return false`
//	                                         are dropped (they only refuse the fast path more often) and listed,
//	    the *ast.Render branch               its guard: `ok` alone = no guard = `true`; `ok && f(render, ctx)`
//	                                         = the translated body of f,
//	from internal/runtime/run.go
//	    case OpCallMacro / OpCallIndirect    which renderer the callee gets, as a decision on (b, fn.Format),
//	    case OpReturn                        what happens to the callee's renderer, as a decision on (b, vm.fn.Format).
//
// Anything outside these shapes is an error ("shape not recognised"), never a guess.

import (
	"bytes"
	"fmt"
	"go/ast"
	"go/parser"
	"go/printer"
	"go/token"
	"path/filepath"
	"sort"
	"strconv"
	"strings"
)

func init() {
	generators = append(generators, generator{name: "ShowFastPath", run: genShowFastPath})
}

type sfpGen struct {
	fset   *token.FileSet
	consts map[string]int // ast.FormatX / ast.ContextX / ReturnString
	// boolean atoms a guard may read besides from/to/ctx: printed Go expression -> Lean Bool variable.
	// Set only while canOptimizeShowMacro is translated ({"em.inURL": "inURL"}: the emitter's URL flag, the
	// very expression the generic branch hands to emitShow); used records which of them occurred.
	atoms map[string]string
	used  map[string]bool
}

func (g *sfpGen) src(n ast.Node) string {
	var b bytes.Buffer
	printer.Fprint(&b, g.fset, n)
	return strings.Join(strings.Fields(b.String()), " ")
}

func sfpErr(format string, a ...any) error {
	return fmt.Errorf("shape not recognised: "+format, a...)
}

// sfpIotaBlock reads `const ( A T = iota; B; C … )` for the named type.
func sfpIotaBlock(f *ast.File, typ string) ([]string, error) {
	for _, d := range f.Decls {
		gd, ok := d.(*ast.GenDecl)
		if !ok || gd.Tok != token.CONST || len(gd.Specs) == 0 {
			continue
		}
		first := gd.Specs[0].(*ast.ValueSpec)
		id, ok := first.Type.(*ast.Ident)
		if !ok || id.Name != typ {
			continue
		}
		if len(first.Values) != 1 {
			return nil, sfpErr("const block of %s does not start with iota", typ)
		}
		if v, ok := first.Values[0].(*ast.Ident); !ok || v.Name != "iota" {
			return nil, sfpErr("const block of %s does not start with iota", typ)
		}
		var names []string
		for i, s := range gd.Specs {
			vs := s.(*ast.ValueSpec)
			if len(vs.Names) != 1 || (i > 0 && (vs.Type != nil || len(vs.Values) != 0)) {
				return nil, sfpErr("const block of %s is not a plain iota enumeration", typ)
			}
			names = append(names, vs.Names[0].Name)
		}
		return names, nil
	}
	return nil, sfpErr("no iota const block of type %s", typ)
}

func sfpFindFunc(f *ast.File, recv, name string) *ast.FuncDecl {
	for _, d := range f.Decls {
		fd, ok := d.(*ast.FuncDecl)
		if !ok || fd.Name.Name != name {
			continue
		}
		if recv == "" && fd.Recv == nil {
			return fd
		}
		if recv != "" && fd.Recv != nil {
			return fd
		}
	}
	return nil
}

// sfpFindCase finds, anywhere below root, the case clause of a (type) switch whose single
// case expression prints as want.
func (g *sfpGen) sfpFindCase(root ast.Node, want string) []*ast.CaseClause {
	var found []*ast.CaseClause
	ast.Inspect(root, func(n ast.Node) bool {
		cc, ok := n.(*ast.CaseClause)
		if ok && len(cc.List) == 1 && g.src(cc.List[0]) == want {
			found = append(found, cc)
		}
		return true
	})
	return found
}

// ---- expressions over the variables of a guard / of the renderer switch ----

type sfpEnv map[string]string // Go expression (printed) -> Lean variable

func (g *sfpGen) num(e ast.Expr, env sfpEnv) (string, error) {
	if p, ok := e.(*ast.ParenExpr); ok {
		return g.num(p.X, env)
	}
	s := g.src(e)
	if v, ok := env[s]; ok {
		return v, nil
	}
	if c, ok := g.consts[s]; ok {
		if c < 0 {
			return "(" + strconv.Itoa(c) + ")", nil
		}
		return strconv.Itoa(c), nil
	}
	// ast.Format(x): a conversion between integer types, value unchanged
	if call, ok := e.(*ast.CallExpr); ok && len(call.Args) == 1 {
		if fn := g.src(call.Fun); fn == "ast.Format" || fn == "ast.Context" {
			return g.num(call.Args[0], env)
		}
	}
	if lit, ok := e.(*ast.BasicLit); ok && lit.Kind == token.INT {
		return lit.Value, nil
	}
	return "", sfpErr("operand %s", s)
}

func (g *sfpGen) boolean(e ast.Expr, env sfpEnv) (string, error) {
	if sel, ok := e.(*ast.SelectorExpr); ok {
		if v, ok := g.atoms[g.src(sel)]; ok {
			g.used[g.src(sel)] = true
			return v, nil
		}
	}
	switch x := e.(type) {
	case *ast.ParenExpr:
		return g.boolean(x.X, env)
	case *ast.UnaryExpr:
		if x.Op == token.NOT {
			a, err := g.boolean(x.X, env)
			if err != nil {
				return "", err
			}
			return "(!" + a + ")", nil
		}
	case *ast.BinaryExpr:
		switch x.Op {
		case token.LAND, token.LOR:
			a, err := g.boolean(x.X, env)
			if err != nil {
				return "", err
			}
			b, err := g.boolean(x.Y, env)
			if err != nil {
				return "", err
			}
			op := " && "
			if x.Op == token.LOR {
				op = " || "
			}
			return "(" + a + op + b + ")", nil
		case token.EQL, token.NEQ, token.LSS, token.GTR, token.LEQ, token.GEQ:
			a, err := g.num(x.X, env)
			if err != nil {
				return "", err
			}
			b, err := g.num(x.Y, env)
			if err != nil {
				return "", err
			}
			switch x.Op {
			case token.EQL:
				return "(" + a + " == " + b + ")", nil
			case token.NEQ:
				return "(" + a + " != " + b + ")", nil
			case token.LSS:
				return "(decide (" + a + " < " + b + "))", nil
			case token.GTR:
				return "(decide (" + a + " > " + b + "))", nil
			case token.LEQ:
				return "(decide (" + a + " ≤ " + b + "))", nil
			default:
				return "(decide (" + a + " ≥ " + b + "))", nil
			}
		}
	}
	return "", sfpErr("condition %s", g.src(e))
}

func (g *sfpGen) mentions(n ast.Node, names ...string) bool {
	hit := false
	ast.Inspect(n, func(m ast.Node) bool {
		if id, ok := m.(*ast.Ident); ok {
			for _, w := range names {
				if id.Name == w {
					hit = true
				}
			}
		}
		return true
	})
	return hit
}

// mentionsAtom: n contains one of the boolean atoms of the guard being translated.
func (g *sfpGen) mentionsAtom(n ast.Node) bool {
	hit := false
	ast.Inspect(n, func(m ast.Node) bool {
		if sel, ok := m.(*ast.SelectorExpr); ok {
			if _, ok := g.atoms[g.src(sel)]; ok {
				hit = true
			}
		}
		return true
	})
	return hit
}

// onlyRefuses: every return below n is `return false` and nothing assigns from/to/ctx.
func (g *sfpGen) onlyRefuses(n ast.Node) bool {
	ok := true
	ast.Inspect(n, func(m ast.Node) bool {
		switch x := m.(type) {
		case *ast.ReturnStmt:
			if len(x.Results) != 1 || g.src(x.Results[0]) != "false" {
				ok = false
			}
		case *ast.AssignStmt:
			for _, l := range x.Lhs {
				if s := g.src(l); s == "from" || s == "to" || s == "ctx" {
					ok = false
				}
			}
		case *ast.IncDecStmt, *ast.GoStmt, *ast.DeferStmt:
			ok = false
		}
		return true
	})
	return ok
}

// guardBody translates the body of canOptimizeShowMacro / of the render guard into a Lean
// Bool term over `from_` and `ctx`. fromInit is the printed right-hand side that defines
// `from` in a plain assignment ("" when `from` is found by the loop over em.formatTypes).
func (g *sfpGen) guardBody(fd *ast.FuncDecl, fromInit string) (term string, dropped []string, err error) {
	env := sfpEnv{"ctx": "ctx"}
	var exits []string // conditions under which the guard is false, in order
	stmts := fd.Body.List
	sawFrom := false
	for i, st := range stmts {
		last := i == len(stmts)-1
		switch x := st.(type) {
		case *ast.ReturnStmt:
			if !last || len(x.Results) != 1 {
				return "", nil, sfpErr("%s: return in the middle: %s", fd.Name.Name, g.src(x))
			}
			if !sawFrom {
				return "", nil, sfpErr("%s: `from` is never defined", fd.Name.Name)
			}
			r, err := g.boolean(x.Results[0], env)
			if err != nil {
				return "", nil, err
			}
			t := r
			for j := len(exits) - 1; j >= 0; j-- {
				t = "(if " + exits[j] + " then false else " + t + ")"
			}
			return t, dropped, nil
		case *ast.IfStmt:
			if g.mentions(x.Cond, "from", "to", "ctx") && x.Init == nil {
				if x.Else != nil || len(x.Body.List) != 1 || g.src(x.Body.List[0]) != "return false" {
					return "", nil, sfpErr("%s: if on from/to/ctx that is not an early `return false`: %s", fd.Name.Name, g.src(x.Cond))
				}
				c, err := g.boolean(x.Cond, env)
				if err != nil {
					return "", nil, err
				}
				exits = append(exits, c)
				continue
			}
			if !g.onlyRefuses(x) {
				return "", nil, sfpErr("%s: statement may accept or changes from/to/ctx: if %s", fd.Name.Name, g.src(x.Cond))
			}
			dropped = append(dropped, "if "+g.src(x.Cond)+" { … return false … }")
		case *ast.AssignStmt:
			if len(x.Lhs) == 1 && g.src(x.Lhs[0]) == "to" && x.Tok == token.DEFINE && g.src(x.Rhs[0]) == "ast.Format(ctx)" {
				env["to"] = "ctx"
				continue
			}
			if len(x.Lhs) == 1 && g.src(x.Lhs[0]) == "from" {
				if fromInit == "" || x.Tok != token.DEFINE || g.src(x.Rhs[0]) != fromInit {
					return "", nil, sfpErr("%s: unexpected definition of from: %s", fd.Name.Name, g.src(x))
				}
				env["from"] = "from_"
				sawFrom = true
				continue
			}
			for _, l := range x.Lhs {
				if s := g.src(l); s == "from" || s == "to" || s == "ctx" {
					return "", nil, sfpErr("%s: assignment to %s", fd.Name.Name, s)
				}
			}
			// call, ok := expr.(*ast.Call); fn := em.ti(call.Func); typ := fn.Type.Out(0)
		case *ast.DeclStmt:
			if g.src(x) != "var from ast.Format" {
				return "", nil, sfpErr("%s: declaration %s", fd.Name.Name, g.src(x))
			}
		case *ast.RangeStmt:
			// for f, t := range em.formatTypes { if t == typ { from = f; break } }
			want := "for f, t := range em.formatTypes { if t == typ { from = f break } }"
			if fromInit != "" || g.src(x) != want {
				return "", nil, sfpErr("%s: loop is not the search of the result type in em.formatTypes: %s", fd.Name.Name, g.src(x))
			}
			// typ must be the macro's result type
			okTyp := false
			for _, p := range stmts[:i] {
				if g.src(p) == "typ := fn.Type.Out(0)" {
					okTyp = true
				}
			}
			if !okTyp {
				return "", nil, sfpErr("%s: typ is not fn.Type.Out(0)", fd.Name.Name)
			}
			env["from"] = "from_"
			sawFrom = true
		default:
			return "", nil, sfpErr("%s: statement %s", fd.Name.Name, g.src(st))
		}
	}
	return "", nil, sfpErr("%s: no final return", fd.Name.Name)
}

// onlyPanics: `if <cond> { panic(…) }` without else.
func (g *sfpGen) onlyPanics(st ast.Stmt) bool {
	ifs, ok := st.(*ast.IfStmt)
	if !ok || ifs.Else != nil || ifs.Init != nil || len(ifs.Body.List) != 1 {
		return false
	}
	es, ok := ifs.Body.List[0].(*ast.ExprStmt)
	if !ok {
		return false
	}
	call, ok := es.X.(*ast.CallExpr)
	return ok && g.src(call.Fun) == "panic"
}

// ---- the renderer switch in run.go ----

// leaf classifies the statements of one branch.
//
//	call side:   0 keep the caller's renderer, 1 strings.Builder (ReturnString), 2 bytes.Buffer (to be
//	             converted Markdown→HTML at return), 3 fresh renderer writing to the caller's out
//	return side: 0 nothing, 1 the string becomes the result, 2 Markdown→HTML converter into the caller's out
func (g *sfpGen) leaf(stmts []ast.Stmt, ret bool) (int, error) {
	code := 0
	seen := false
	for _, st := range stmts {
		s := g.src(st)
		switch {
		case !ret && s == "vm.renderer = newRenderer(&strings.Builder{})":
			code, seen = 1, true
		case !ret && s == "vm.renderer = newRenderer(&bytes.Buffer{})":
			code, seen = 2, true
		case !ret && s == "vm.renderer = newRenderer(vm.renderer.out)":
			code, seen = 3, true
		case !ret && strings.HasPrefix(s, "if vm.env.conv == nil { panic("):
			// the missing-converter check in front of the buffer
		case ret && s == "out := vm.renderer.Out().(*strings.Builder)":
		case ret && s == "out := vm.renderer.Out().(*bytes.Buffer)":
		case ret && s == "vm.setString(1, out.String())":
			code, seen = 1, true
		case ret && s == "err := vm.env.conv(out.Bytes(), call.renderer.out)":
			code, seen = 2, true
		case ret && s == "w := &convWriter{w: call.renderer.out}":
			// a writer that forwards to the caller's out and remembers its error
		case ret && s == "err := vm.env.conv(out.Bytes(), w)":
			ok := false
			for _, p := range stmts {
				ok = ok || g.src(p) == "w := &convWriter{w: call.renderer.out}"
			}
			if !ok {
				return 0, sfpErr("renderer switch: conv writes to an unknown w")
			}
			code, seen = 2, true
		case ret && g.onlyPanics(st):
		default:
			return 0, sfpErr("renderer switch: statement %s", s)
		}
	}
	if !seen {
		return 0, sfpErr("renderer switch: branch without effect")
	}
	return code, nil
}

func (g *sfpGen) chain(st ast.Stmt, env sfpEnv, ret bool) (string, error) {
	ifs, ok := st.(*ast.IfStmt)
	if !ok || ifs.Init != nil {
		return "", sfpErr("renderer switch: expected an if chain, got %s", g.src(st))
	}
	c, err := g.boolean(ifs.Cond, env)
	if err != nil {
		return "", err
	}
	var then string
	if len(ifs.Body.List) >= 1 {
		if inner, ok := ifs.Body.List[len(ifs.Body.List)-1].(*ast.IfStmt); ok && len(ifs.Body.List) == 1 && inner.Else != nil {
			then, err = g.chain(inner, env, ret)
			if err != nil {
				return "", err
			}
		}
	}
	if then == "" {
		code, err := g.leaf(ifs.Body.List, ret)
		if err != nil {
			return "", err
		}
		then = strconv.Itoa(code)
	}
	els := "0"
	switch e := ifs.Else.(type) {
	case nil:
	case *ast.IfStmt:
		els, err = g.chain(e, env, ret)
		if err != nil {
			return "", err
		}
	case *ast.BlockStmt:
		code, err := g.leaf(e.List, ret)
		if err != nil {
			return "", err
		}
		els = strconv.Itoa(code)
	}
	return "(if " + c + " then " + then + " else " + els + ")", nil
}

// findChain finds the single `if b == ReturnString …` statement below n.
func (g *sfpGen) findChain(n ast.Node) (*ast.IfStmt, error) {
	var found []*ast.IfStmt
	ast.Inspect(n, func(m ast.Node) bool {
		if ifs, ok := m.(*ast.IfStmt); ok && g.src(ifs.Cond) == "b == ReturnString" {
			found = append(found, ifs)
			return false
		}
		return true
	})
	if len(found) != 1 {
		return nil, sfpErr("renderer switch: %d chains starting with `if b == ReturnString`", len(found))
	}
	return found[0], nil
}

func genShowFastPath(repo string) (string, error) {
	g := &sfpGen{fset: token.NewFileSet(), consts: map[string]int{}}
	parse := func(rel string) (*ast.File, error) {
		return parser.ParseFile(g.fset, filepath.Join(repo, rel), nil, parser.SkipObjectResolution)
	}
	var out strings.Builder
	out.WriteString("/-! `{{ M() }}` / `{{ render \"f\" }}` fast paths of the emitter's Show case and the renderer switch of\n")
	out.WriteString("OpCallMacro / OpCallIndirect / OpReturn, regenerated (see go/cmd/extract/gen_showfastpath.go). -/\n")
	out.WriteString("namespace ScriggoV.Gen.ShowFastPath\n\n")

	// 1. constants
	astFile, err := parse("ast/ast.go")
	if err != nil {
		return "", err
	}
	formats, err := sfpIotaBlock(astFile, "Format")
	if err != nil {
		return "", err
	}
	contexts, err := sfpIotaBlock(astFile, "Context")
	if err != nil {
		return "", err
	}
	list := func(names []string, pkg string) string {
		var parts []string
		for i, n := range names {
			g.consts[pkg+n] = i
			parts = append(parts, fmt.Sprintf("(%q, %d)", n, i))
		}
		return "[" + strings.Join(parts, ", ") + "]"
	}
	out.WriteString("/-- ast/ast.go: the Format constants -/\ndef formats : List (String × Nat) :=\n  " + list(formats, "ast.") + "\n")
	out.WriteString("/-- ast/ast.go: the Context constants -/\ndef contexts : List (String × Nat) :=\n  " + list(contexts, "ast.") + "\n")
	vmFile, err := parse("internal/runtime/vm.go")
	if err != nil {
		return "", err
	}
	rs := 0
	foundRS := false
	for _, d := range vmFile.Decls {
		if gd, ok := d.(*ast.GenDecl); ok && gd.Tok == token.CONST {
			for _, s := range gd.Specs {
				vs := s.(*ast.ValueSpec)
				if len(vs.Names) == 1 && vs.Names[0].Name == "ReturnString" && len(vs.Values) == 1 {
					n, err := strconv.Atoi(g.src(vs.Values[0]))
					if err != nil {
						return "", sfpErr("ReturnString = %s", g.src(vs.Values[0]))
					}
					rs, foundRS = n, true
				}
			}
		}
	}
	if !foundRS || rs >= 0 {
		return "", sfpErr("const ReturnString is not a negative literal")
	}
	g.consts["ReturnString"] = rs
	fmt.Fprintf(&out, "/-- internal/runtime/vm.go: ReturnString -/\ndef returnString : Int := %d\n\n", rs)

	// 2. the Show case
	em, err := parse("internal/compiler/emitter_statements.go")
	if err != nil {
		return "", err
	}
	emitNodes := sfpFindFunc(em, "emitter", "emitNodes")
	if emitNodes == nil {
		return "", sfpErr("no emitter.emitNodes")
	}
	shows := g.sfpFindCase(emitNodes, "*ast.Show")
	if len(shows) != 1 {
		return "", sfpErr("%d `case *ast.Show:` clauses in emitNodes", len(shows))
	}
	show := shows[0]
	if len(show.Body) != 2 || g.src(show.Body[0]) != "ctx := node.Context" {
		return "", sfpErr("Show case does not start with ctx := node.Context")
	}
	loop, ok := show.Body[1].(*ast.RangeStmt)
	if !ok || g.src(loop.X) != "node.Expressions" || g.src(loop.Value) != "expr" || len(loop.Body.List) != 1 {
		return "", sfpErr("Show case is not a loop over node.Expressions")
	}
	first, ok := loop.Body.List[0].(*ast.IfStmt)
	if !ok || first.Init != nil || g.src(first.Cond) != "em.canOptimizeShowMacro(expr, ctx)" {
		return "", sfpErr("Show case: first branch is not em.canOptimizeShowMacro(expr, ctx)")
	}
	hasStmt := func(b *ast.BlockStmt, want string) bool {
		for _, s := range b.List {
			if g.src(s) == want {
				return true
			}
		}
		return false
	}
	if !hasStmt(first.Body, "em.emitCallNode(expr.(*ast.Call), false, false, ast.Format(ctx))") {
		return "", sfpErr("Show case: macro fast path does not call emitCallNode(…, ast.Format(ctx))")
	}
	second, ok := first.Else.(*ast.IfStmt)
	if !ok || second.Init == nil || g.src(second.Init) != "render, ok := expr.(*ast.Render)" {
		return "", sfpErr("Show case: second branch is not `render, ok := expr.(*ast.Render)`")
	}
	if !hasStmt(second.Body, "em.emitCallNode(render.IR.Call, false, false, ast.Format(ctx))") {
		return "", sfpErr("Show case: render fast path does not call emitCallNode(render.IR.Call, …, ast.Format(ctx))")
	}
	generic, ok := second.Else.(*ast.BlockStmt)
	if !ok || !hasStmt(generic, "r := em.emitExpr(expr, ti.Type)") || !hasStmt(generic, "em.fb.emitShow(ti.Type, r, ctx, em.inURL, em.isURLSet)") {
		return "", sfpErr("Show case: third branch is not the generic emitExpr + emitShow")
	}

	canOpt := sfpFindFunc(em, "emitter", "canOptimizeShowMacro")
	if canOpt == nil {
		return "", sfpErr("no emitter.canOptimizeShowMacro")
	}
	// the receiver must be `em *emitter`, so that `em.inURL` is the flag of the emitter that the generic
	// branch passes to emitShow (pinned above)
	if canOpt.Recv == nil || len(canOpt.Recv.List) != 1 || len(canOpt.Recv.List[0].Names) != 1 ||
		canOpt.Recv.List[0].Names[0].Name != "em" || g.src(canOpt.Recv.List[0].Type) != "*emitter" {
		return "", sfpErr("canOptimizeShowMacro: receiver is not (em *emitter)")
	}
	g.atoms, g.used = map[string]string{"em.inURL": "inURL"}, map[string]bool{}
	mg, dropped, err := g.guardBody(canOpt, "")
	readsInURL := g.used["em.inURL"]
	g.atoms, g.used = nil, nil
	if err != nil {
		return "", err
	}
	for _, d := range dropped {
		if strings.Contains(d, "inURL") {
			return "", sfpErr("canOptimizeShowMacro: a dropped exit mentions inURL: %s", d)
		}
	}
	out.WriteString("/-- canOptimizeShowMacro as a condition on (format of the macro's result type, context of the show).\n")
	out.WriteString("Dropped, because they can only refuse the fast path and do not look at the formats:\n")
	for _, d := range dropped {
		out.WriteString("  * `" + strings.ReplaceAll(d, "-/", "- /") + "`\n")
	}
	out.WriteString("`inURL` is the emitter's flag `em.inURL` (the one the generic branch hands to emitShow). -/\n")
	if readsInURL {
		out.WriteString("def macroGuardU (inURL : Bool) (from_ ctx : Nat) : Bool :=\n  " + mg + "\n")
	} else {
		out.WriteString("def macroGuardU (_inURL : Bool) (from_ ctx : Nat) : Bool :=\n  " + mg + "\n")
	}
	fmt.Fprintf(&out, "/-- whether canOptimizeShowMacro reads `em.inURL` at all -/\ndef macroGuardReadsInURL : Bool := %v\n", readsInURL)
	out.WriteString("/-- the condition for a show that is not inside a URL -/\ndef macroGuard (from_ ctx : Nat) : Bool :=\n  macroGuardU false from_ ctx\n\n")

	// the render branch
	rcond := g.src(second.Cond)
	switch {
	case rcond == "ok":
		out.WriteString("/-- the `*ast.Render` branch of the Show case has no format test -/\ndef renderGuarded : Bool := false\n")
		out.WriteString("def renderGuard (_from ctx : Nat) : Bool :=\n  ctx == ctx\n\n")
	default:
		be, ok := second.Cond.(*ast.BinaryExpr)
		if !ok || be.Op != token.LAND || g.src(be.X) != "ok" {
			return "", sfpErr("Show case: render branch condition %s", rcond)
		}
		call, ok := be.Y.(*ast.CallExpr)
		if !ok || len(call.Args) != 2 || g.src(call.Args[0]) != "render" || g.src(call.Args[1]) != "ctx" {
			return "", sfpErr("Show case: render branch condition %s", rcond)
		}
		name := g.src(call.Fun)
		name = strings.TrimPrefix(name, "em.")
		fd := sfpFindFunc(em, "", name)
		if fd == nil {
			fd = sfpFindFunc(em, "emitter", name)
		}
		if fd == nil || fd.Type.Params == nil {
			return "", sfpErr("Show case: render guard %s not found in emitter_statements.go", name)
		}
		var params []string
		for _, p := range fd.Type.Params.List {
			for _, n := range p.Names {
				params = append(params, n.Name)
			}
		}
		if len(params) != 2 || params[0] != "render" || params[1] != "ctx" {
			return "", sfpErr("render guard %s: parameters are not (render, ctx)", name)
		}
		rg, rdropped, err := g.guardBody(fd, "render.Tree.Format")
		if err != nil {
			return "", err
		}
		if len(rdropped) > 0 {
			return "", sfpErr("render guard %s: unexpected extra statements", name)
		}
		out.WriteString("/-- the `*ast.Render` branch of the Show case is guarded by `" + name + "` -/\ndef renderGuarded : Bool := true\n")
		out.WriteString("def renderGuard (from_ ctx : Nat) : Bool :=\n  " + rg + "\n\n")
	}

	// 3. run.go
	run, err := parse("internal/runtime/run.go")
	if err != nil {
		return "", err
	}
	names := map[string]string{"OpCallMacro": "callMacroChoice", "OpCallIndirect": "callIndirectChoice"}
	keys := []string{"OpCallIndirect", "OpCallMacro"}
	sort.Strings(keys)
	for _, op := range keys {
		ccs := g.sfpFindCase(run, op)
		if len(ccs) != 1 {
			return "", sfpErr("%d `case %s:` clauses in run.go", len(ccs), op)
		}
		ch, err := g.findChain(ccs[0])
		if err != nil {
			return "", fmt.Errorf("%s: %v", op, err)
		}
		t, err := g.chain(ch, sfpEnv{"b": "b", "fn.Format": "(fnFormat : Int)"}, false)
		if err != nil {
			return "", fmt.Errorf("%s: %v", op, err)
		}
		fmt.Fprintf(&out, "/-- %s: renderer of the callee. 0 the caller's renderer, 1 strings.Builder (ReturnString),\n2 bytes.Buffer (converted Markdown→HTML at return), 3 fresh renderer on the caller's out -/\n", op)
		fmt.Fprintf(&out, "def %s (b : Int) (fnFormat : Nat) : Nat :=\n  %s\n\n", names[op], t)
	}
	ccs := g.sfpFindCase(run, "OpReturn")
	if len(ccs) != 1 {
		return "", sfpErr("%d `case OpReturn:` clauses", len(ccs))
	}
	// if vm.fn.Macro { if call.renderer != vm.renderer { b := …B; <chain> }; vm.renderer = call.renderer }
	var macroIf *ast.IfStmt
	ast.Inspect(ccs[0], func(m ast.Node) bool {
		if ifs, ok := m.(*ast.IfStmt); ok && g.src(ifs.Cond) == "vm.fn.Macro" {
			macroIf = ifs
			return false
		}
		return true
	})
	if macroIf == nil || len(macroIf.Body.List) != 2 || g.src(macroIf.Body.List[1]) != "vm.renderer = call.renderer" {
		return "", sfpErr("OpReturn: no `if vm.fn.Macro { …; vm.renderer = call.renderer }`")
	}
	diff, ok := macroIf.Body.List[0].(*ast.IfStmt)
	if !ok || g.src(diff.Cond) != "call.renderer != vm.renderer" || diff.Else != nil || len(diff.Body.List) != 2 ||
		g.src(diff.Body.List[0]) != "b := fn.Body[call.pc-2].B" {
		return "", sfpErr("OpReturn: no `if call.renderer != vm.renderer { b := fn.Body[call.pc-2].B; … }`")
	}
	t, err := g.chain(diff.Body.List[1], sfpEnv{"b": "b", "vm.fn.Format": "(fnFormat : Int)"}, true)
	if err != nil {
		return "", fmt.Errorf("OpReturn: %v", err)
	}
	out.WriteString("/-- OpReturn from a macro whose renderer is not the caller's: 0 nothing (the output is already in the\ncaller's out), 1 the built string is the result, 2 Markdown→HTML converter into the caller's out -/\n")
	fmt.Fprintf(&out, "def returnAction (b : Int) (fnFormat : Nat) : Nat :=\n  %s\n\n", t)

	out.WriteString("end ScriggoV.Gen.ShowFastPath\n")
	return out.String(), nil
}
