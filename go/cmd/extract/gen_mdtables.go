package main

// Generator "MdTables" (property C26): regenerates from
// /repo/internal/runtime/escapers.go what the Markdown escapers are parameterised by:
//
//	slash, nbsp, tab, fourSpaces      var x = []byte(`…`) / []byte("…") / []byte{'…', …}
//	markdownEscape                    the byte list of the clause `case '\\', '`', …: esc = slash`
//
// The loops around them (markdownEscape's switch with its '<', '&', ' '/'\t' clauses, the
// comment / CDATA / tag skipping, markdownCodeBlockEscape) are hand-modelled in
// Model/MarkdownEscape.lean. To keep that model tied, the source text of both functions
// (with the punctuation case list cut out) and of isHTMLComment/isCDATA is pinned by a
// hash: any edit outside the case list is reported as "shape not recognised" and the model
// must be re-read. Helpers are prefixed `md` so that this file stands alone.

import (
	"bytes"
	"crypto/sha256"
	"encoding/hex"
	"fmt"
	"go/ast"
	"go/parser"
	"go/printer"
	"go/token"
	"path/filepath"
	"strconv"
	"strings"
)

func init() {
	generators = append(generators, generator{name: "MdTables", run: genMdTables})
}

// pinned shapes (sha256 of the whitespace-normalised source, see mdShape)
var mdPinned = map[string]string{
	"markdownEscape":          "c7e850efa1cca7c0",
	"markdownCodeBlockEscape": "9d3d62035d19503a",
	"isHTMLComment":           "ba3410f152b20bfd",
	"isCDATA":                 "ba7f3ae59923edec",
}

type mdGen struct {
	fset  *token.FileSet
	file  *ast.File
	funcs map[string]*ast.FuncDecl
}

func mdLoad(path string) (*mdGen, error) {
	g := &mdGen{fset: token.NewFileSet(), funcs: map[string]*ast.FuncDecl{}}
	f, err := parser.ParseFile(g.fset, path, nil, parser.SkipObjectResolution)
	if err != nil {
		return nil, err
	}
	g.file = f
	for _, d := range f.Decls {
		if fn, ok := d.(*ast.FuncDecl); ok {
			if fn.Recv == nil {
				g.funcs[fn.Name.Name] = fn
			} else {
				g.funcs["method:"+fn.Name.Name] = fn // methods, whatever the receiver
			}
		}
	}
	return g, nil
}

func (g *mdGen) src(n ast.Node) string {
	var b bytes.Buffer
	printer.Fprint(&b, g.fset, n)
	return strings.Join(strings.Fields(b.String()), " ")
}

// mdShape is the hash of the whitespace-normalised source of n, with the text `cut`
// (if not empty; must occur exactly once) replaced by a placeholder.
func (g *mdGen) mdShape(n ast.Node, cut string) (string, error) {
	s := g.src(n)
	if cut != "" {
		if strings.Count(s, cut) != 1 {
			return "", fmt.Errorf("shape not recognised: %q occurs %d times", cut, strings.Count(s, cut))
		}
		s = strings.Replace(s, cut, "<<TABLE>>", 1)
	}
	h := sha256.Sum256([]byte(s))
	return hex.EncodeToString(h[:8]), nil
}

func (g *mdGen) pinned(name, cut string, pins map[string]string) error {
	fn := g.funcs[name]
	if fn == nil {
		return fmt.Errorf("shape not recognised: func %s not found", name)
	}
	got, err := g.mdShape(fn, cut)
	if err != nil {
		return fmt.Errorf("%s: %v", name, err)
	}
	if got != pins[name] {
		return fmt.Errorf("shape not recognised: func %s changed outside its table (source hash %s, model was written for %s): re-read it and update the hand-written model", name, got, pins[name])
	}
	return nil
}

func mdByteLit(e ast.Expr) (int, error) {
	lit, ok := e.(*ast.BasicLit)
	if !ok {
		return 0, fmt.Errorf("shape not recognised: expected a byte literal")
	}
	switch lit.Kind {
	case token.CHAR:
		s, err := strconv.Unquote(lit.Value)
		if err != nil {
			return 0, fmt.Errorf("shape not recognised: char literal %s", lit.Value)
		}
		r := []rune(s)
		if len(r) != 1 || r[0] > 127 {
			return 0, fmt.Errorf("shape not recognised: char literal %s is not an ASCII byte", lit.Value)
		}
		return int(r[0]), nil
	case token.INT:
		n, err := strconv.ParseInt(lit.Value, 0, 64)
		if err != nil || n < 0 || n > 255 {
			return 0, fmt.Errorf("shape not recognised: int literal %s is not a byte", lit.Value)
		}
		return int(n), nil
	}
	return 0, fmt.Errorf("shape not recognised: literal %s", lit.Value)
}

// byteSliceVar reads `var name = []byte("…")`, `[]byte(`…`)` or `[]byte{'…', …}`.
func (g *mdGen) byteSliceVar(name string) ([]byte, error) {
	for _, d := range g.file.Decls {
		gd, ok := d.(*ast.GenDecl)
		if !ok || gd.Tok != token.VAR {
			continue
		}
		for _, sp := range gd.Specs {
			vs := sp.(*ast.ValueSpec)
			if len(vs.Names) != 1 || vs.Names[0].Name != name {
				continue
			}
			if len(vs.Values) != 1 || vs.Type != nil {
				return nil, fmt.Errorf("shape not recognised: var %s", name)
			}
			switch v := vs.Values[0].(type) {
			case *ast.CallExpr:
				if g.src(v.Fun) != "[]byte" || len(v.Args) != 1 {
					return nil, fmt.Errorf("shape not recognised: var %s = %s", name, g.src(v))
				}
				lit, ok := v.Args[0].(*ast.BasicLit)
				if !ok || lit.Kind != token.STRING {
					return nil, fmt.Errorf("shape not recognised: var %s = %s", name, g.src(v))
				}
				s, err := strconv.Unquote(lit.Value)
				if err != nil {
					return nil, fmt.Errorf("shape not recognised: var %s = %s", name, g.src(v))
				}
				return []byte(s), nil
			case *ast.CompositeLit:
				if g.src(v.Type) != "[]byte" {
					return nil, fmt.Errorf("shape not recognised: var %s = %s", name, g.src(v))
				}
				var out []byte
				for _, el := range v.Elts {
					c, err := mdByteLit(el)
					if err != nil {
						return nil, fmt.Errorf("var %s: %v", name, err)
					}
					out = append(out, byte(c))
				}
				return out, nil
			}
			return nil, fmt.Errorf("shape not recognised: var %s", name)
		}
	}
	return nil, fmt.Errorf("shape not recognised: var %s not found", name)
}

func mdLeanBytes(b []byte) string {
	if len(b) == 0 {
		return "[]"
	}
	parts := make([]string, len(b))
	for i, c := range b {
		parts[i] = strconv.Itoa(int(c))
	}
	return "[" + strings.Join(parts, ", ") + "]"
}

// mdBytePred prints a byte set as a Lean Bool expression over `c`.
func mdBytePred(set []int) string {
	if len(set) == 0 {
		return "false"
	}
	parts := make([]string, len(set))
	for i, c := range set {
		parts[i] = fmt.Sprintf("c == %d", c)
	}
	return strings.Join(parts, " || ")
}

func mdQuoteSet(set []int) string {
	parts := make([]string, len(set))
	for i, c := range set {
		parts[i] = string(rune(c))
	}
	return strings.Join(parts, " ")
}

// slashClause finds in fn the clause `case <bytes…>: esc = slash` of `switch s[i]`.
func (g *mdGen) slashClause(fn *ast.FuncDecl) (set []int, listSrc string, err error) {
	var clauses []*ast.CaseClause
	ast.Inspect(fn.Body, func(n ast.Node) bool {
		if sw, ok := n.(*ast.SwitchStmt); ok && sw.Tag != nil && g.src(sw.Tag) == "s[i]" {
			for _, st := range sw.Body.List {
				cc := st.(*ast.CaseClause)
				if len(cc.List) > 1 && len(cc.Body) == 1 && g.src(cc.Body[0]) == "esc = slash" {
					clauses = append(clauses, cc)
				}
			}
		}
		return true
	})
	if len(clauses) != 1 {
		return nil, "", fmt.Errorf("shape not recognised: %s: expected exactly one multi-byte clause `esc = slash`, found %d", fn.Name.Name, len(clauses))
	}
	seen := map[int]bool{}
	var srcs []string
	for _, e := range clauses[0].List {
		c, err := mdByteLit(e)
		if err != nil {
			return nil, "", fmt.Errorf("%s: %v", fn.Name.Name, err)
		}
		if seen[c] {
			return nil, "", fmt.Errorf("shape not recognised: %s: duplicate case %d", fn.Name.Name, c)
		}
		seen[c] = true
		set = append(set, c)
		srcs = append(srcs, g.src(e))
	}
	return set, "case " + strings.Join(srcs, ", ") + ":", nil
}

func genMdTables(repo string) (string, error) {
	g, err := mdLoad(filepath.Join(repo, "internal", "runtime", "escapers.go"))
	if err != nil {
		return "", err
	}
	fn := g.funcs["markdownEscape"]
	if fn == nil {
		return "", fmt.Errorf("shape not recognised: func markdownEscape not found")
	}
	set, listSrc, err := g.slashClause(fn)
	if err != nil {
		return "", err
	}
	if err := g.pinned("markdownEscape", listSrc, mdPinned); err != nil {
		return "", err
	}
	for _, name := range []string{"markdownCodeBlockEscape", "isHTMLComment", "isCDATA"} {
		if err := g.pinned(name, "", mdPinned); err != nil {
			return "", err
		}
	}
	var out strings.Builder
	out.WriteString("import ScriggoV.Basic.Bytes\n/-! Tables of the Markdown escapers of internal/runtime/escapers.go. -/\nnamespace ScriggoV.Gen.MdTables\nopen ScriggoV\n\n")
	for _, v := range []string{"slash", "nbsp", "tab", "fourSpaces"} {
		b, err := g.byteSliceVar(v)
		if err != nil {
			return "", err
		}
		fmt.Fprintf(&out, "/-- `var %s` = %s -/\ndef %s : Bytes := %s\n\n", v, strconv.Quote(string(b)), v, mdLeanBytes(b))
	}
	fmt.Fprintf(&out, "/-- the bytes of markdownEscape's clause `case …: esc = slash`:  %s -/\ndef slashCase (c : UInt8) : Bool :=\n  %s\n\n", strings.ReplaceAll(mdQuoteSet(set), "-/", "- /"), mdBytePred(set))
	out.WriteString("end ScriggoV.Gen.MdTables\n")
	return out.String(), nil
}
