package main

// Generator "CompilerGlobals" (property C30, build independence within a process). With go/types
// it lists every package-level variable of /repo/internal/compiler (non-test files) with its
// type, whether the type can reach a pointer, map, slice or channel other than through an
// interface (state that survives a build can only live there or in the variable itself), and
// every *direct* write to such a variable outside variable initialisers and `init` functions:
// assignments, op-assignments, ++/--, delete(v, …), and method calls with the variable as
// pointer receiver (which may mutate it). Writes through an alias (p := universe["true"].ti;
// p.setValue(…)) are NOT found by that — it needs a points-to analysis. What is listed instead is
// its type-based over-approximation: for every package-level variable, the struct types of the
// package that can be reached from its type through pointers, maps, slices, arrays and fields
// (pointerReach), and for each such struct type the fields that functions of the package assign
// (fieldWrites: `x.f = …`, `x.f op= …`, `x.f++` with x of that type or a pointer to it, outside
// init). A variable reaching a struct type with written fields holds values that a build can
// mutate through a pointer obtained from it: state shared by all builds of the process. The
// finding history-universe-bool was of that kind (universe → scopeName → *typeInfo, written by
// typeInfo.setValue and emitter.ti; cured by bb933ad: checkIdentifier records a copy of the type
// info of a constant for every use — which a type-based reach cannot see, so that the two
// variables stay listed).

import (
	"fmt"
	"go/ast"
	"go/token"
	"go/types"
	"path/filepath"
	"sort"
	"strings"
)

func init() {
	generators = append(generators, generator{name: "CompilerGlobals", run: genCompilerGlobals})
}

// cgReaches reports whether t can hold a reference to mutable memory (pointer, map, slice, chan,
// func), not looking inside interfaces.
func cgReaches(t types.Type, seen map[types.Type]bool) bool {
	if seen[t] {
		return false
	}
	seen[t] = true
	switch u := t.Underlying().(type) {
	case *types.Pointer, *types.Map, *types.Slice, *types.Chan, *types.Signature:
		return true
	case *types.Array:
		return cgReaches(u.Elem(), seen)
	case *types.Struct:
		for i := 0; i < u.NumFields(); i++ {
			if cgReaches(u.Field(i).Type(), seen) {
				return true
			}
		}
	}
	return false
}

// cgStructs collects the struct types declared in pkg of which t can reach an *addressable* value
// other than the variable itself: behind a pointer or in a slice (through pointers, maps, slices,
// arrays, channels and struct fields; not through interfaces). A struct held by value in a map
// cannot be assigned to field-wise (`m[k].f = v` is not Go), so it does not count — what its
// pointer fields reach does.
func cgStructs(t types.Type, addr bool, pkg *types.Package, seen map[[2]any]bool, out map[string]bool) {
	if seen[[2]any{t, addr}] {
		return
	}
	seen[[2]any{t, addr}] = true
	if n, ok := t.(*types.Named); ok && addr {
		if _, isStruct := n.Underlying().(*types.Struct); isStruct && n.Obj().Pkg() == pkg {
			out[n.Obj().Name()] = true
		}
	}
	switch u := t.Underlying().(type) {
	case *types.Pointer:
		cgStructs(u.Elem(), true, pkg, seen, out)
	case *types.Map:
		cgStructs(u.Key(), false, pkg, seen, out)
		cgStructs(u.Elem(), false, pkg, seen, out)
	case *types.Slice:
		cgStructs(u.Elem(), true, pkg, seen, out)
	case *types.Array:
		cgStructs(u.Elem(), addr, pkg, seen, out)
	case *types.Chan:
		cgStructs(u.Elem(), false, pkg, seen, out)
	case *types.Struct:
		for i := 0; i < u.NumFields(); i++ {
			cgStructs(u.Field(i).Type(), addr, pkg, seen, out)
		}
	}
}

// cgContainerKind names the kind of container a package-level variable is: something that can be
// added to at run time and so can serve as a cache, registry or pool that outlives a build.
func cgContainerKind(t types.Type) string {
	if n, ok := t.(*types.Named); ok && n.Obj().Pkg() != nil && n.Obj().Pkg().Path() == "sync" {
		return "sync." + n.Obj().Name()
	}
	if p, ok := t.Underlying().(*types.Pointer); ok {
		if k := cgContainerKind(p.Elem()); strings.HasPrefix(k, "sync.") {
			return "*" + k
		}
		return ""
	}
	switch u := t.Underlying().(type) {
	case *types.Map:
		return "map"
	case *types.Slice:
		return "slice"
	case *types.Chan:
		return "chan"
	case *types.Array:
		if k := cgContainerKind(u.Elem()); k != "" {
			return "array of " + k
		}
	case *types.Struct:
		for i := 0; i < u.NumFields(); i++ {
			if k := cgContainerKind(u.Field(i).Type()); k != "" {
				return "struct with " + k
			}
		}
	}
	return ""
}

func genCompilerGlobals(repo string) (string, error) {
	pkg, err := c30Load(repo)
	if err != nil {
		return "", err
	}
	qual := func(p *types.Package) string { return p.Name() }
	type gvar struct {
		name, file, typ string
		refs            bool
		structs         []string
		container       string
	}
	var vars []gvar
	isGlobal := map[types.Object]bool{}
	for _, f := range pkg.Syntax {
		file := filepath.Base(pkg.Fset.Position(f.Pos()).Filename)
		for _, d := range f.Decls {
			gd, ok := d.(*ast.GenDecl)
			if !ok || gd.Tok != token.VAR {
				continue
			}
			for _, sp := range gd.Specs {
				for _, id := range sp.(*ast.ValueSpec).Names {
					obj := pkg.TypesInfo.Defs[id]
					if obj == nil || id.Name == "_" {
						continue
					}
					isGlobal[obj] = true
					reached := map[string]bool{}
					cgStructs(obj.Type(), false, pkg.Types, map[[2]any]bool{}, reached)
					var rs []string
					for n := range reached {
						rs = append(rs, n)
					}
					sort.Strings(rs)
					vars = append(vars, gvar{id.Name, file, types.TypeString(obj.Type(), qual), cgReaches(obj.Type(), map[types.Type]bool{}), rs, cgContainerKind(obj.Type())})
				}
			}
		}
	}
	sort.Slice(vars, func(i, j int) bool { return vars[i].name < vars[j].name })
	// direct writes
	var writes []string
	root := func(e ast.Expr) types.Object {
		for {
			switch x := e.(type) {
			case *ast.ParenExpr:
				e = x.X
			case *ast.IndexExpr:
				e = x.X
			case *ast.SelectorExpr:
				e = x.X
			case *ast.StarExpr:
				e = x.X
			case *ast.Ident:
				if o := pkg.TypesInfo.Uses[x]; o != nil && isGlobal[o] {
					return o
				}
				return nil
			default:
				return nil
			}
		}
	}
	for _, f := range pkg.Syntax {
		file := filepath.Base(pkg.Fset.Position(f.Pos()).Filename)
		for _, d := range f.Decls {
			fd, ok := d.(*ast.FuncDecl)
			if !ok || fd.Body == nil || (fd.Name.Name == "init" && fd.Recv == nil) {
				continue
			}
			fn := fd.Name.Name
			ast.Inspect(fd.Body, func(n ast.Node) bool {
				note := func(o types.Object, how string) {
					if o != nil {
						writes = append(writes, fmt.Sprintf("%s %s %s: %s", o.Name(), how, file, fn))
					}
				}
				switch x := n.(type) {
				case *ast.AssignStmt:
					if x.Tok != token.DEFINE {
						for _, l := range x.Lhs {
							note(root(l), "assign")
						}
					}
				case *ast.IncDecStmt:
					note(root(x.X), "incdec")
				case *ast.CallExpr:
					if id, ok := x.Fun.(*ast.Ident); ok && id.Name == "delete" && len(x.Args) > 0 {
						note(root(x.Args[0]), "delete")
					}
					if sel, ok := x.Fun.(*ast.SelectorExpr); ok {
						if s := pkg.TypesInfo.Selections[sel]; s != nil && s.Kind() == types.MethodVal {
							if sig, ok := s.Obj().Type().(*types.Signature); ok && sig.Recv() != nil {
								if _, ptr := sig.Recv().Type().(*types.Pointer); ptr {
									if id, ok := sel.X.(*ast.Ident); ok {
										if o := pkg.TypesInfo.Uses[id]; o != nil && isGlobal[o] {
											note(o, "call ."+sel.Sel.Name)
										}
									}
								}
							}
						}
					}
				case *ast.UnaryExpr:
					if x.Op == token.AND { // &global escapes: anything can be written through it
						note(root(x.X), "address-taken")
					}
				}
				return true
			})
		}
	}
	sort.Strings(writes)
	// field writes per struct type of the package
	fieldWrites := map[string]map[string]bool{}
	for _, f := range pkg.Syntax {
		for _, d := range f.Decls {
			fd, ok := d.(*ast.FuncDecl)
			if !ok || fd.Body == nil || (fd.Name.Name == "init" && fd.Recv == nil) {
				continue
			}
			fn := mrcFuncName(fd)
			noteField := func(e ast.Expr) {
				for {
					if p, ok := e.(*ast.ParenExpr); ok {
						e = p.X
						continue
					}
					break
				}
				sel, ok := e.(*ast.SelectorExpr)
				if !ok {
					return
				}
				s := pkg.TypesInfo.Selections[sel]
				if s == nil || s.Kind() != types.FieldVal {
					return
				}
				t := s.Recv()
				if p, ok := t.Underlying().(*types.Pointer); ok {
					t = p.Elem()
				}
				n, ok := t.(*types.Named)
				if !ok || n.Obj().Pkg() != pkg.Types {
					return
				}
				if fieldWrites[n.Obj().Name()] == nil {
					fieldWrites[n.Obj().Name()] = map[string]bool{}
				}
				fieldWrites[n.Obj().Name()][sel.Sel.Name+" "+fn] = true
			}
			ast.Inspect(fd.Body, func(n ast.Node) bool {
				switch x := n.(type) {
				case *ast.AssignStmt:
					if x.Tok != token.DEFINE {
						for _, l := range x.Lhs {
							noteField(l)
						}
					}
				case *ast.IncDecStmt:
					noteField(x.X)
				}
				return true
			})
		}
	}
	var b strings.Builder
	b.WriteString("/-! Package-level variables of /repo/internal/compiler (go/types) and the direct writes to them\noutside initialisers and init functions. See go/cmd/extract/gen_compilerglobals.go. -/\nnamespace ScriggoV.Gen.CompilerGlobals\n\n")
	b.WriteString("structure Var where\n  name : String\n  file : String\n  typ : String\n  /-- the type can hold a pointer, map, slice, channel or function (not looking inside interfaces) -/\n  refs : Bool\n  deriving DecidableEq, Repr\n\n")
	b.WriteString("def vars : List Var := [\n")
	for i, v := range vars {
		sep := ","
		if i == len(vars)-1 {
			sep = ""
		}
		fmt.Fprintf(&b, "  { name := %q, file := %q, typ := %q, refs := %v }%s\n", v.name, v.file, v.typ, v.refs, sep)
	}
	b.WriteString("]\n\n/-- `<variable> <kind of write> <file>: <function>` -/\ndef directWrites : List String := [\n")
	for i, w := range writes {
		sep := ","
		if i == len(writes)-1 {
			sep = ""
		}
		fmt.Fprintf(&b, "  %q%s\n", w, sep)
	}
	// containers and who writes them
	writersOf := map[string][]string{}
	writtenSet := map[string]bool{}
	for _, w := range writes {
		f := strings.SplitN(w, " ", 2)
		writersOf[f[0]] = append(writersOf[f[0]], f[1])
		writtenSet[f[0]] = true
	}
	b.WriteString("]\n\n/-- the package-level variables that are containers (map, slice, chan, sync.Map, sync.Pool, or an\narray / struct holding one): what a cache, registry or pool that outlives a build would be; `writers`:\nthe direct writes to it (`<kind of write> <file>: <function>`) outside initialisers and init functions -/\nstructure Container where\n  name : String\n  kind : String\n  writers : List String\n  deriving DecidableEq, Repr\n\ndef containers : List Container := [\n")
	var cl []string
	for _, v := range vars {
		if v.container == "" {
			continue
		}
		var ws []string
		for _, w := range writersOf[v.name] {
			ws = append(ws, fmt.Sprintf("%q", w))
		}
		cl = append(cl, fmt.Sprintf("  { name := %q, kind := %q, writers := [%s] }", v.name, v.container, strings.Join(ws, ", ")))
	}
	b.WriteString(strings.Join(cl, ",\n"))
	b.WriteString("\n]\n\n/-- the package-level variables (of any type) some function writes directly -/\ndef writtenVars : List String := [")
	var wv []string
	for _, v := range vars {
		if writtenSet[v.name] {
			wv = append(wv, fmt.Sprintf("%q", v.name))
		}
	}
	b.WriteString(strings.Join(wv, ", "))
	b.WriteString("]\n\n/-- for every package-level variable that reaches one: the struct types of the package reachable from\nits type behind a pointer or in a slice (through pointers, maps, slices, arrays and fields) whose fields\nsome function assigns -/\ndef pointerReach : List (String × List String) := [\n")
	usedStructs := map[string]bool{}
	var lines []string
	for _, v := range vars {
		var ws []string
		for _, st := range v.structs {
			if len(fieldWrites[st]) > 0 {
				ws = append(ws, fmt.Sprintf("%q", st))
				usedStructs[st] = true
			}
		}
		if len(ws) > 0 {
			lines = append(lines, fmt.Sprintf("  (%q, [%s])", v.name, strings.Join(ws, ", ")))
		}
	}
	b.WriteString(strings.Join(lines, ",\n"))
	b.WriteString("\n]\n\n/-- for each struct type above: `<field> <function>` for every assignment to a field of a value of\nthat type (or through a pointer to it) outside init functions -/\ndef fieldWrites : List (String × List String) := [\n")
	var sts []string
	for st := range usedStructs {
		sts = append(sts, st)
	}
	sort.Strings(sts)
	lines = nil
	for _, st := range sts {
		var ws []string
		for w := range fieldWrites[st] {
			ws = append(ws, w)
		}
		sort.Strings(ws)
		for i := range ws {
			ws[i] = fmt.Sprintf("%q", ws[i])
		}
		lines = append(lines, fmt.Sprintf("  (%q, [%s])", st, strings.Join(ws, ", ")))
	}
	b.WriteString(strings.Join(lines, ",\n"))
	b.WriteString("\n]\n\nend ScriggoV.Gen.CompilerGlobals\n")
	return b.String(), nil
}
