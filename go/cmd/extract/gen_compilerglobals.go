package main

// Generator "CompilerGlobals" (property C30, build independence within a process). With go/types
// it lists every package-level variable of /repo/internal/compiler (non-test files) with its
// type, whether the type can reach a pointer, map, slice or channel other than through an
// interface (state that survives a build can only live there or in the variable itself), and
// every *direct* write to such a variable outside variable initialisers and `init` functions:
// assignments, op-assignments, ++/--, delete(v, …), and method calls with the variable as
// pointer receiver (which may mutate it). Writes through an alias (p := universe["true"].ti;
// p.setValue(…)) are NOT found — that needs a points-to analysis; the known finding
// history-universe-bool is of that kind and is caught by the oracle of go/props/c30.

import (
	"fmt"
	"go/ast"
	"go/token"
	"go/types"
	"os"
	"path/filepath"
	"sort"
	"strings"

	"golang.org/x/tools/go/packages"
)

func init() {
	generators = append(generators, generator{name: "CompilerGlobals", run: genCompilerGlobals})
}

// cgReaches reports whether t can hold a reference to mutable memory (pointer, map, slice, chan,
// func), not looking inside interfaces.
func cgReaches(t types.Type, seen map[types.Type]bool) bool {
	if seen[t] {
		return false
	}
	seen[t] = true
	switch u := t.Underlying().(type) {
	case *types.Pointer, *types.Map, *types.Slice, *types.Chan, *types.Signature:
		return true
	case *types.Array:
		return cgReaches(u.Elem(), seen)
	case *types.Struct:
		for i := 0; i < u.NumFields(); i++ {
			if cgReaches(u.Field(i).Type(), seen) {
				return true
			}
		}
	}
	return false
}

func genCompilerGlobals(repo string) (string, error) {
	cfg := &packages.Config{
		Mode: packages.NeedName | packages.NeedFiles | packages.NeedSyntax | packages.NeedTypes | packages.NeedTypesInfo | packages.NeedImports | packages.NeedDeps,
		Dir:  repo,
		Env:  append(os.Environ(), "GOFLAGS=-mod=mod", "GOPROXY=off"),
	}
	pkgs, err := packages.Load(cfg, "./internal/compiler")
	if err != nil || len(pkgs) != 1 || len(pkgs[0].Errors) > 0 {
		return "", fmt.Errorf("shape not recognised: cannot load and type-check internal/compiler: %v", err)
	}
	pkg := pkgs[0]
	qual := func(p *types.Package) string { return p.Name() }
	type gvar struct {
		name, file, typ string
		refs            bool
	}
	var vars []gvar
	isGlobal := map[types.Object]bool{}
	for _, f := range pkg.Syntax {
		file := filepath.Base(pkg.Fset.Position(f.Pos()).Filename)
		for _, d := range f.Decls {
			gd, ok := d.(*ast.GenDecl)
			if !ok || gd.Tok != token.VAR {
				continue
			}
			for _, sp := range gd.Specs {
				for _, id := range sp.(*ast.ValueSpec).Names {
					obj := pkg.TypesInfo.Defs[id]
					if obj == nil || id.Name == "_" {
						continue
					}
					isGlobal[obj] = true
					vars = append(vars, gvar{id.Name, file, types.TypeString(obj.Type(), qual), cgReaches(obj.Type(), map[types.Type]bool{})})
				}
			}
		}
	}
	sort.Slice(vars, func(i, j int) bool { return vars[i].name < vars[j].name })
	// direct writes
	var writes []string
	root := func(e ast.Expr) types.Object {
		for {
			switch x := e.(type) {
			case *ast.ParenExpr:
				e = x.X
			case *ast.IndexExpr:
				e = x.X
			case *ast.SelectorExpr:
				e = x.X
			case *ast.StarExpr:
				e = x.X
			case *ast.Ident:
				if o := pkg.TypesInfo.Uses[x]; o != nil && isGlobal[o] {
					return o
				}
				return nil
			default:
				return nil
			}
		}
	}
	for _, f := range pkg.Syntax {
		file := filepath.Base(pkg.Fset.Position(f.Pos()).Filename)
		for _, d := range f.Decls {
			fd, ok := d.(*ast.FuncDecl)
			if !ok || fd.Body == nil || (fd.Name.Name == "init" && fd.Recv == nil) {
				continue
			}
			fn := fd.Name.Name
			ast.Inspect(fd.Body, func(n ast.Node) bool {
				note := func(o types.Object, how string) {
					if o != nil {
						writes = append(writes, fmt.Sprintf("%s %s %s: %s", o.Name(), how, file, fn))
					}
				}
				switch x := n.(type) {
				case *ast.AssignStmt:
					if x.Tok != token.DEFINE {
						for _, l := range x.Lhs {
							note(root(l), "assign")
						}
					}
				case *ast.IncDecStmt:
					note(root(x.X), "incdec")
				case *ast.CallExpr:
					if id, ok := x.Fun.(*ast.Ident); ok && id.Name == "delete" && len(x.Args) > 0 {
						note(root(x.Args[0]), "delete")
					}
					if sel, ok := x.Fun.(*ast.SelectorExpr); ok {
						if s := pkg.TypesInfo.Selections[sel]; s != nil && s.Kind() == types.MethodVal {
							if sig, ok := s.Obj().Type().(*types.Signature); ok && sig.Recv() != nil {
								if _, ptr := sig.Recv().Type().(*types.Pointer); ptr {
									if id, ok := sel.X.(*ast.Ident); ok {
										if o := pkg.TypesInfo.Uses[id]; o != nil && isGlobal[o] {
											note(o, "call ."+sel.Sel.Name)
										}
									}
								}
							}
						}
					}
				case *ast.UnaryExpr:
					if x.Op == token.AND { // &global escapes: anything can be written through it
						note(root(x.X), "address-taken")
					}
				}
				return true
			})
		}
	}
	sort.Strings(writes)
	var b strings.Builder
	b.WriteString("/-! Package-level variables of /repo/internal/compiler (go/types) and the direct writes to them\noutside initialisers and init functions. See go/cmd/extract/gen_compilerglobals.go. -/\nnamespace ScriggoV.Gen.CompilerGlobals\n\n")
	b.WriteString("structure Var where\n  name : String\n  file : String\n  typ : String\n  /-- the type can hold a pointer, map, slice, channel or function (not looking inside interfaces) -/\n  refs : Bool\n  deriving DecidableEq, Repr\n\n")
	b.WriteString("def vars : List Var := [\n")
	for i, v := range vars {
		sep := ","
		if i == len(vars)-1 {
			sep = ""
		}
		fmt.Fprintf(&b, "  { name := %q, file := %q, typ := %q, refs := %v }%s\n", v.name, v.file, v.typ, v.refs, sep)
	}
	b.WriteString("]\n\n/-- `<variable> <kind of write> <file>: <function>` -/\ndef directWrites : List String := [\n")
	for i, w := range writes {
		sep := ","
		if i == len(writes)-1 {
			sep = ""
		}
		fmt.Fprintf(&b, "  %q%s\n", w, sep)
	}
	b.WriteString("]\n\nend ScriggoV.Gen.CompilerGlobals\n")
	return b.String(), nil
}
