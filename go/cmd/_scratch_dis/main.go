package main

import (
	"fmt"
	"os"

	"github.com/open2b/scriggo"
)

func main() {
	src, _ := os.ReadFile(os.Args[1])
	prog, err := scriggo.Build(scriggo.Files{"main.go": src}, nil)
	if err != nil {
		fmt.Println("build:", err)
		return
	}
	asm, err := prog.Disassemble("main")
	fmt.Println(string(asm), err)
}
